(* Property C17: movement of pests out of overpopulated cells
   (MoveOverpopulatedPests::action) and scheduled movement of hosts
   (HostMovement::action, HostPool::move_hosts_from_to).

   1. overpop_leaves_iff     when pests leave a cell (one kernel event) and when nothing happens
   2. overpop_leaving_count  how many leave, where they are recorded
   3. overpop_two_phase      all departures come before the first arrival; arrival_spec
   4. movement_loop_spec, movement_exactly_once, act_movement_exactly_once   the movement cursor
   5. moved_is_min, destination_becomes_suitable   one host movement

   Every statement holds for every tape of random outcomes. *)
From Coq Require Import ZArith QArith List Bool Lia ZifyBool Sorted.
From Pops Require Import Err Rounding RoundingProps CellDefs CellProps MoveProps LandDefs MonadProps
  LandProps ShapeProps LandProps2.
Import ListNotations.
Local Open Scope Z_scope.


(* ---------- pointwise equality of computations ---------- *)
Definition meq {A} (m1 m2 : W A) : Prop := forall w t, m1 w t = m2 w t.

Lemma meq_refl {A} (m : W A) : meq m m.
Proof. intros w t. reflexivity. Qed.
Lemma meq_sym {A} (m1 m2 : W A) : meq m1 m2 -> meq m2 m1.
Proof. intros H w t. symmetry. apply H. Qed.
Lemma meq_trans {A} (m1 m2 m3 : W A) : meq m1 m2 -> meq m2 m3 -> meq m1 m3.
Proof. intros H1 H2 w t. rewrite H1. apply H2. Qed.
Lemma meq_bind {A B} (m1 m2 : W A) (f1 f2 : A -> W B) :
  meq m1 m2 -> (forall a, meq (f1 a) (f2 a)) -> meq (mbind m1 f1) (mbind m2 f2).
Proof.
  intros Hm Hf w t. unfold mbind. rewrite Hm.
  destruct (m2 w t) as [[[a s1] t1]|e]; [apply Hf|reflexivity].
Qed.
Lemma mbind_assoc {A B C} (m : W A) (f : A -> W B) (h : B -> W C) :
  meq (mbind (mbind m f) h) (mbind m (fun a => mbind (f a) h)).
Proof. intros w t. unfold mbind. destruct (m w t) as [[[a s1] t1]|e]; reflexivity. Qed.
Lemma mbind_ret_l {A B} (a : A) (f : A -> W B) : meq (mbind (ret a) f) (f a).
Proof. intros w t. reflexivity. Qed.
Lemma mbind_ret_r {A} (m : W A) : meq (mbind m (fun a => ret a)) m.
Proof. intros w t. unfold mbind. destruct (m w t) as [[[a s1] t1]|e]; reflexivity. Qed.

(* ---------- updating one position of a list ---------- *)
Fixpoint upd_nth {A} (l : list A) (i : nat) (f : A -> A) : list A :=
  match l, i with
  | [], _ => []
  | x :: r, O => f x :: r
  | x :: r, S k => x :: upd_nth r k f
  end.

Lemma upd_nth_length {A} (l : list A) : forall i f, length (upd_nth l i f) = length l.
Proof. induction l as [|x r IH]; intros [|i] f; cbn [upd_nth length]; auto. Qed.

Lemma upd_nth_nth {A} (l : list A) : forall i f j,
  nth_error (upd_nth l i f) j = if Nat.eqb j i then option_map f (nth_error l i) else nth_error l j.
Proof.
  induction l as [|x r IH]; intros i f j.
  - cbn [upd_nth]. destruct (Nat.eqb j i); destruct i, j; reflexivity.
  - destruct i as [|i]; destruct j as [|j]; cbn [upd_nth nth_error Nat.eqb option_map]; try reflexivity.
    apply IH.
Qed.

Lemma upd_nth_const {A} (l : list A) : forall i f c, nth_error l i = Some c ->
  upd_nth l i (fun _ => f c) = upd_nth l i f.
Proof.
  induction l as [|x r IH]; intros [|i] f c H; cbn [nth_error upd_nth] in *; try discriminate.
  - injection H as ->. reflexivity.
  - f_equal. apply IH. exact H.
Qed.

Lemma upd_nth_twice {A} (l : list A) : forall i f g,
  upd_nth (upd_nth l i f) i g = upd_nth l i (fun x => g (f x)).
Proof. induction l as [|x r IH]; intros [|i] f g; cbn [upd_nth]; try reflexivity. f_equal. apply IH. Qed.

Lemma upd_nth_mid {A} (pre : list A) x post f :
  upd_nth (pre ++ x :: post) (length pre) f = pre ++ f x :: post.
Proof. induction pre as [|y r IH]; cbn [app length upd_nth]; [reflexivity|]. f_equal. exact IH. Qed.

Lemma rset_upd_nth {A} (l : list A) : forall i a l', rset l i a = Ok l' -> l' = upd_nth l i (fun _ => a).
Proof.
  induction l as [|x r IH]; intros i a l' H; cbn [rset] in H; [discriminate|].
  destruct i as [|i]; [injection H as <-; reflexivity|].
  destruct (rset r i a) as [r'|] eqn:E; [|discriminate]. cbn [bind] in H. injection H as <-.
  cbn [upd_nth]. f_equal. apply (IH _ _ _ E).
Qed.

(* ---------- exact effect of set_host / set_cell ---------- *)
Definition host_upd (i : nat) (f : cell -> cell) (h : hostpool) : hostpool :=
  mkhp (upd_nth (hp_cells h) i f) (hp_suitable h).

Lemma with_hosts_twice w a b : with_hosts (with_hosts w a) b = with_hosts w b.
Proof. reflexivity. Qed.
Lemma with_hosts_same w : with_hosts w (w_hosts w) = w.
Proof. destruct w; reflexivity. Qed.

Lemma set_host_exact k h' w t u w' t' : set_host k h' w t = Ok (u, w', t') ->
  t' = t /\ w' = with_hosts w (upd_nth (w_hosts w) k (fun _ => h')).
Proof.
  intros H. apply set_host_inv in H as (-> & hs & R & ->). apply rset_upd_nth in R. subst hs. auto.
Qed.

Lemma set_cell_exact k i c' w t u w' t' : set_cell k i c' w t = Ok (u, w', t') ->
  t' = t /\ w' = with_hosts w (upd_nth (w_hosts w) k (host_upd i (fun _ => c'))) /\
  exists h c, nth_error (w_hosts w) k = Some h /\ nth_error (hp_cells h) i = Some c.
Proof.
  intros H. unfold set_cell in H.
  apply bind_inv in H as (h & s1 & t1 & G & H). apply get_host_inv in G as (-> & -> & Hk).
  apply bind_inv in H as (cs & s2 & t2 & L & H). apply lift_inv in L as (R1 & -> & ->).
  apply set_host_exact in H as (-> & ->). split; [reflexivity|].
  pose proof (rset_spec _ _ _ _ R1) as (pre & old & post & E1 & _ & L1).
  apply rset_upd_nth in R1. subst cs. split.
  - f_equal. rewrite <- (upd_nth_const _ k (host_upd i (fun _ => c')) h Hk). reflexivity.
  - exists h, old. split; [exact Hk|]. rewrite E1, <- L1. apply nth_error_mid.
Qed.

(* ---------- sums of a field over the hosts at one cell ---------- *)
Definition field_at (f : cell -> Z) (i : nat) (h : hostpool) : Z :=
  match nth_error (hp_cells h) i with Some c => f c | None => 0 end.
Definition field_sum (f : cell -> Z) (i : nat) (hs : list hostpool) : Z :=
  sumZ (map (field_at f i) hs).
Definition has_cell (i : nat) (h : hostpool) : Prop := exists c, nth_error (hp_cells h) i = Some c.

Lemma fold_field_spec (F : Z -> cell -> Z) (f : cell -> Z) i :
  (forall a c, F a c = a + f c) ->
  forall hs x,
  fold_right (fun h acc => do a <- acc; do c <- rget (hp_cells h) i; Ok (F a c)) (Ok 0) hs = Ok x ->
  x = field_sum f i hs /\ Forall (has_cell i) hs.
Proof.
  intros HF. induction hs as [|h r IH]; intros x H; cbn [fold_right] in H.
  - injection H as <-. split; [reflexivity|constructor].
  - destruct (fold_right _ _ r) as [a|] eqn:E; [|discriminate]. cbn [bind] in H.
    destruct (rget (hp_cells h) i) as [c|] eqn:Ec; [|discriminate]. cbn [bind] in H. injection H as <-.
    apply rget_Some in Ec. destruct (IH _ eq_refl) as (-> & HA). split.
    + change (field_sum f i (h :: r)) with (field_at f i h + field_sum f i r).
      unfold field_at. rewrite Ec, HF. lia.
    + constructor; [exists c; exact Ec|exact HA].
Qed.

Lemma multi_infected_at_spec i w t x w' t' : multi_infected_at i w t = Ok (x, w', t') ->
  w' = w /\ t' = t /\ x = field_sum cI i (w_hosts w) /\ Forall (has_cell i) (w_hosts w).
Proof.
  unfold multi_infected_at. intros H. binv.
  match goal with E : fold_right _ _ _ = Ok _ |- _ =>
    apply (fold_field_spec (fun a c => a + cI c) cI i (fun a c => eq_refl)) in E as (-> & HA) end.
  auto.
Qed.

Definition cSI (c : cell) : Z := cS c + cI c.

Lemma multi_total_hosts_at_spec i w t x w' t' : multi_total_hosts_at i w t = Ok (x, w', t') ->
  w' = w /\ t' = t /\ x = field_sum cSI i (w_hosts w) /\ Forall (has_cell i) (w_hosts w).
Proof.
  unfold multi_total_hosts_at. intros H. binv.
  match goal with E : fold_right _ _ _ = Ok _ |- _ =>
    apply (fold_field_spec (fun a c => a + cS c + cI c) cSI i) in E as (-> & HA);
      [|intros a c; unfold cSI; lia] end.
  auto.
Qed.

Lemma field_sum_cSI i hs : field_sum cSI i hs = field_sum cS i hs + field_sum cI i hs.
Proof.
  unfold field_sum. induction hs as [|h r IH]; cbn [map sumZ]; [reflexivity|].
  rewrite IH. unfold field_at, cSI. destruct (nth_error (hp_cells h) i); lia.
Qed.

(* ---------- the per-host loop of pests_from / pests_to ---------- *)
Definition pests_loop (F : cell -> Z -> cell * Z) (i : nat) :=
  fix go (k m : nat) (ds : list Z) (acc : Z) : W Z :=
    match m, ds with
    | S m', x :: r =>
      let* c := get_cell k i in
      let res := F c x in
      set_cell k i (fst res) ;; go (S k) m' r (acc + snd res)
    | _, _ => ret acc
    end.

Lemma multi_pests_from_unfold i count :
  multi_pests_from i count =
  (let* n := num_hosts in
   let* d := pop_draw n in
   let* pops := host_field_at cI i in
   (if valid_draw pops d count then ret tt else fail TapeMismatch) ;;
   pests_loop pests_from i 0%nat n d 0).
Proof. reflexivity. Qed.

Lemma multi_pests_to_unfold i count :
  multi_pests_to i count =
  (let* n := num_hosts in
   let* d := pop_draw n in
   let* pops := host_field_at cS i in
   (if valid_draw pops d count then ret tt else fail TapeMismatch) ;;
   pests_loop pests_to i 0%nat n d 0).
Proof. reflexivity. Qed.

(* the hosts after the loop: host k's cell i is replaced by F's result for the
   k-th drawn count; [zip_moved] is what the loop returns *)
Fixpoint hosts_zip (i : nat) (F : cell -> Z -> cell) (hs : list hostpool) (ds : list Z) : list hostpool :=
  match hs, ds with
  | h :: hr, x :: dr => host_upd i (fun c => F c x) h :: hosts_zip i F hr dr
  | _, _ => hs
  end.
Fixpoint zip_moved (i : nat) (F : cell -> Z -> Z) (hs : list hostpool) (ds : list Z) : Z :=
  match hs, ds with
  | h :: hr, x :: dr =>
    match nth_error (hp_cells h) i with Some c => F c x | None => 0 end + zip_moved i F hr dr
  | _, _ => 0
  end.

Lemma pests_loop_spec (F : cell -> Z -> cell * Z) i : forall m k ds acc w t x w' t' pre rest,
  w_hosts w = pre ++ rest -> length pre = k -> length rest = m ->
  pests_loop F i k m ds acc w t = Ok (x, w', t') ->
  t' = t /\
  w' = with_hosts w (pre ++ hosts_zip i (fun c y => fst (F c y)) rest ds) /\
  x = acc + zip_moved i (fun c y => snd (F c y)) rest ds.
Proof.
  induction m as [|m IH]; intros k ds acc w t x w' t' pre rest Hw Hk Hm H.
  - destruct rest; [|discriminate Hm]. cbn [pests_loop] in H. apply ret_inv in H as (-> & -> & ->).
    cbn [hosts_zip zip_moved]. rewrite <- Hw, with_hosts_same. split; [reflexivity|]. split; [reflexivity|lia].
  - destruct rest as [|h rest]; [discriminate Hm|]. injection Hm as Hm.
    destruct ds as [|y r].
    + cbn [pests_loop] in H. apply ret_inv in H as (-> & -> & ->).
      cbn [hosts_zip zip_moved]. rewrite <- Hw, with_hosts_same. split; [reflexivity|]. split; [reflexivity|lia].
    + cbn [pests_loop] in H. cbv zeta in H.
      apply bind_inv in H as (c & s0 & t0 & E & H). apply get_cell_inv in E as (-> & -> & h0 & Hk0 & Hi).
      rewrite Hw, <- Hk, nth_error_mid in Hk0. injection Hk0 as <-.
      apply bind_inv in H as (u & w1 & t1 & Es & H).
      apply set_cell_exact in Es as (-> & -> & _).
      rewrite Hw, <- Hk, upd_nth_mid in H.
      set (h' := host_upd i (fun _ => fst (F c y)) h) in *.
      assert (A1 : w_hosts (with_hosts w (pre ++ h' :: rest)) = (pre ++ [h']) ++ rest)
        by (cbn [with_hosts w_hosts]; rewrite <- app_assoc; reflexivity).
      assert (A2 : length (pre ++ [h']) = S (length pre)) by (rewrite app_length; cbn [length]; lia).
      destruct (IH _ _ _ _ _ _ _ _ _ _ A1 A2 Hm H) as (-> & -> & ->). subst h'.
      split; [reflexivity|]. split.
      * rewrite with_hosts_twice, <- app_assoc. cbn [app hosts_zip]. do 3 f_equal.
        unfold host_upd. f_equal. apply (upd_nth_const _ _ (fun c0 => fst (F c0 y)) _ Hi).
      * cbn [zip_moved]. rewrite Hi. lia.
Qed.

(* sums after the zip *)
Lemma field_at_host_upd f i g h : field_at f i (host_upd i g h) =
  match nth_error (hp_cells h) i with Some c => f (g c) | None => 0 end.
Proof.
  unfold field_at, host_upd. cbn [hp_cells]. rewrite upd_nth_nth, Nat.eqb_refl.
  destruct (nth_error (hp_cells h) i); reflexivity.
Qed.

Lemma field_at_host_upd_other f i j g h : j <> i -> field_at f j (host_upd i g h) = field_at f j h.
Proof.
  intros Hne. unfold field_at, host_upd. cbn [hp_cells]. rewrite upd_nth_nth.
  destruct (Nat.eqb_spec j i); [contradiction|reflexivity].
Qed.

Lemma field_sum_zip (f : cell -> Z) i (G : cell -> Z -> cell) (delta : cell -> Z -> Z) :
  forall hs ds, Forall2 (fun x h => forall c, nth_error (hp_cells h) i = Some c -> f (G c x) = f c + delta c x) ds hs ->
  field_sum f i (hosts_zip i G hs ds) = field_sum f i hs + zip_moved i delta hs ds.
Proof.
  intros hs ds H. induction H as [|x h ds hs Hx _ IH]; cbn [hosts_zip zip_moved]; [lia|].
  unfold field_sum in *. cbn [map sumZ]. rewrite IH, field_at_host_upd. unfold field_at.
  destruct (nth_error (hp_cells h) i) as [c|] eqn:E; [rewrite (Hx c eq_refl)|]; lia.
Qed.

Lemma field_sum_zip_other (f : cell -> Z) i j (G : cell -> Z -> cell) : j <> i ->
  forall hs ds, field_sum f j (hosts_zip i G hs ds) = field_sum f j hs.
Proof.
  intros Hne. unfold field_sum. induction hs as [|h hs IH]; intros [|x ds]; cbn [hosts_zip map sumZ]; try reflexivity.
  rewrite IH, field_at_host_upd_other by exact Hne. reflexivity.
Qed.

Lemma zip_moved_sum i (F : cell -> Z -> Z) : forall ds hs,
  Forall2 (fun x h => exists c, nth_error (hp_cells h) i = Some c /\ F c x = x) ds hs ->
  zip_moved i F hs ds = sumZ ds.
Proof.
  intros ds hs H. induction H as [|x h ds hs (c & Hc & Hx) _ IH]; cbn [zip_moved sumZ]; [reflexivity|].
  rewrite Hc, Hx, IH. reflexivity.
Qed.

Lemma hosts_zip_length i G : forall hs ds, length (hosts_zip i G hs ds) = length hs.
Proof. induction hs as [|h hs IH]; intros [|x ds]; cbn [hosts_zip length]; auto. Qed.

Lemma hosts_zip_suitable i G : forall hs ds, map hp_suitable (hosts_zip i G hs ds) = map hp_suitable hs.
Proof. induction hs as [|h hs IH]; intros [|x ds]; cbn [hosts_zip map]; try reflexivity. rewrite IH. reflexivity. Qed.

(* cell-by-cell view of the zip *)
Lemma hosts_zip_cell i G : forall hs ds k j, length ds = length hs ->
  match nth_error (hosts_zip i G hs ds) k with
  | Some h' => exists h, nth_error hs k = Some h /\
               nth_error (hp_cells h') j =
               if Nat.eqb j i then option_map (fun c => G c (nth k ds 0)) (nth_error (hp_cells h) i)
               else nth_error (hp_cells h) j
  | None => nth_error hs k = None
  end.
Proof.
  induction hs as [|h hs IH]; intros [|x ds] k j Hl; try discriminate Hl.
  - cbn [hosts_zip]. destruct k; reflexivity.
  - cbn [hosts_zip]. destruct k as [|k]; cbn [nth_error nth].
    + exists h. split; [reflexivity|]. unfold host_upd. cbn [hp_cells]. apply upd_nth_nth.
    + apply IH. injection Hl as Hl. exact Hl.
Qed.

Definition pops_at (f : cell -> Z) (i : nat) (hs : list hostpool) : list Z := map (field_at f i) hs.

Lemma host_field_at_pops f i w t pops w' t' : host_field_at f i w t = Ok (pops, w', t') ->
  w' = w /\ t' = t /\ pops = pops_at f i (w_hosts w) /\ Forall (has_cell i) (w_hosts w).
Proof.
  intros H. pose proof H as H0. apply host_field_at_spec in H0 as (-> & HF).
  assert (t' = t) as -> by (unfold host_field_at in H; binv; reflexivity).
  split; [reflexivity|]. split; [reflexivity|]. clear H.
  induction HF as [|h p hs ps (c & Hc & ->) _ (IH1 & IH2)]; [split; [reflexivity|constructor]|].
  split.
  - unfold pops_at in *. cbn [map]. unfold field_at at 1. rewrite Hc. f_equal. exact IH1.
  - constructor; [exists c; exact Hc|exact IH2].
Qed.

Lemma pop_draw_inv k w t d w' t' : pop_draw k w t = Ok (d, w', t') ->
  w' = w /\ exists labels, t = EvDraw labels :: t' /\ labels_below labels 0 (Z.of_nat k) = true /\
                           d = counts_of labels k.
Proof.
  unfold pop_draw. intros H. apply bind_inv in H as (e & s1 & t1 & P & H).
  apply pop_inv in P as (-> & ->). destruct e; try discriminate H.
  destruct (labels_below labels 0 (Z.of_nat k)) eqn:E; [|discriminate H].
  apply ret_inv in H as (-> & -> & ->). split; [reflexivity|]. exists labels. auto.
Qed.

Lemma num_hosts_inv w t n w' t' : num_hosts w t = Ok (n, w', t') -> w' = w /\ t' = t /\ n = length (w_hosts w).
Proof. unfold num_hosts. intros H. binv. auto. Qed.

(* ---- MultiHostPool::pests_from ---- *)
Definition take_pests (c : cell) (x : Z) : cell := fst (pests_from c x).
Definition give_pests (c : cell) (x : Z) : cell := fst (pests_to c x).

Theorem multi_pests_from_spec i count w t x w' t' :
  multi_pests_from i count w t = Ok (x, w', t') ->
  exists labels d,
    t = EvDraw labels :: t' /\ d = counts_of labels (length (w_hosts w)) /\
    Forall2 (draw_fits cI i) d (w_hosts w) /\
    x = sumZ d /\ x = draw_total count (pops_at cI i (w_hosts w)) /\
    w' = with_hosts w (hosts_zip i take_pests (w_hosts w) d) /\
    field_sum cI i (w_hosts w') = field_sum cI i (w_hosts w) - x /\
    field_sum cS i (w_hosts w') = field_sum cS i (w_hosts w) + x.
Proof.
  rewrite multi_pests_from_unfold. intros H.
  apply bind_inv in H as (n & s0 & t0 & E & H).
  apply num_hosts_inv in E as (-> & -> & ->).
  apply bind_inv in H as (d & s0 & t1 & E & H). apply pop_draw_inv in E as (-> & labels & -> & _ & Hd).
  apply bind_inv in H as (pops & s0 & t2 & Ef & H).
  apply bind_inv in H as (u & s1 & t3 & E & H).
  destruct (valid_draw pops d count) eqn:V; [|discriminate E].
  apply ret_inv in E as (_ & -> & ->).
  destruct (valid_draw_fits _ _ _ _ _ _ _ _ _ Ef V) as (_ & Hfit).
  apply host_field_at_pops in Ef as (-> & -> & -> & Hall).
  apply valid_draw_spec in V as (_ & Hsum & _).
  destruct (pests_loop_spec pests_from i _ _ _ _ _ _ _ _ _ [] (w_hosts w) eq_refl eq_refl eq_refl H)
    as (-> & -> & ->).
  cbn [app] in *.
  assert (Hz : zip_moved i (fun c y => snd (pests_from c y)) (w_hosts w) d = sumZ d).
  { apply zip_moved_sum. eapply Forall2_weaken; [|exact Hfit].
    intros y h (c & Hc & _). exists c. split; [exact Hc|reflexivity]. }
  exists labels, d. split; [reflexivity|]. split; [exact Hd|]. split; [exact Hfit|].
  split; [lia|]. split; [lia|]. split; [reflexivity|]. cbn [with_hosts w_hosts]. split.
  - rewrite (field_sum_zip cI i _ (fun _ y => - y)).
    + assert (Hn : zip_moved i (fun _ y => - y) (w_hosts w) d = - sumZ d).
      { clear - Hfit. induction Hfit as [|y h ds hs (c & Hc & _) _ IH]; cbn [zip_moved sumZ]; [reflexivity|].
        rewrite Hc, IH. lia. }
      rewrite Hz, Hn. lia.
    + eapply Forall2_weaken; [|exact Hfit]. intros y h _ c _. cbn [pests_from fst cI]. lia.
  - rewrite (field_sum_zip cS i _ (fun _ y => y)).
    + rewrite Hz, (zip_moved_sum i (fun _ y => y)).
      * lia.
      * eapply Forall2_weaken; [|exact Hfit]. intros y h (c & Hc & _). exists c. auto.
    + eapply Forall2_weaken; [|exact Hfit]. intros y h _ c _. cbn [pests_from fst cS]. lia.
Qed.

(* ---- MultiHostPool::pests_to ---- *)
Lemma pests_to_fits c x : 0 <= x <= cS c ->
  pests_to c x = (mkcell (cS c - x) (cE c) (cI c + x) (cTE c) (cR c) (cM c) (cD c) (cTH c), x).
Proof. intros H. unfold pests_to. destruct (cS c >=? x) eqn:E; [reflexivity|lia]. Qed.

Theorem multi_pests_to_spec i count w t x w' t' :
  multi_pests_to i count w t = Ok (x, w', t') ->
  exists labels d,
    t = EvDraw labels :: t' /\ d = counts_of labels (length (w_hosts w)) /\
    Forall2 (draw_fits cS i) d (w_hosts w) /\
    x = sumZ d /\ x = draw_total count (pops_at cS i (w_hosts w)) /\
    w' = with_hosts w (hosts_zip i give_pests (w_hosts w) d) /\
    field_sum cI i (w_hosts w') = field_sum cI i (w_hosts w) + x /\
    field_sum cS i (w_hosts w') = field_sum cS i (w_hosts w) - x.
Proof.
  rewrite multi_pests_to_unfold. intros H.
  apply bind_inv in H as (n & s0 & t0 & E & H).
  apply num_hosts_inv in E as (-> & -> & ->).
  apply bind_inv in H as (d & s0 & t1 & E & H). apply pop_draw_inv in E as (-> & labels & -> & _ & Hd).
  apply bind_inv in H as (pops & s0 & t2 & Ef & H).
  apply bind_inv in H as (u & s1 & t3 & E & H).
  destruct (valid_draw pops d count) eqn:V; [|discriminate E].
  apply ret_inv in E as (_ & -> & ->).
  destruct (valid_draw_fits _ _ _ _ _ _ _ _ _ Ef V) as (_ & Hfit).
  apply host_field_at_pops in Ef as (-> & -> & -> & Hall).
  apply valid_draw_spec in V as (_ & Hsum & _).
  destruct (pests_loop_spec pests_to i _ _ _ _ _ _ _ _ _ [] (w_hosts w) eq_refl eq_refl eq_refl H)
    as (-> & -> & ->).
  cbn [app] in *.
  assert (Hz : zip_moved i (fun c y => snd (pests_to c y)) (w_hosts w) d = sumZ d).
  { apply zip_moved_sum. eapply Forall2_weaken; [|exact Hfit].
    intros y h (c & Hc & Hy). exists c. split; [exact Hc|]. rewrite (pests_to_fits _ _ Hy). reflexivity. }
  assert (Hp : zip_moved i (fun _ y => y) (w_hosts w) d = sumZ d).
  { apply zip_moved_sum. eapply Forall2_weaken; [|exact Hfit]. intros y h (c & Hc & _). exists c. auto. }
  assert (Hn : zip_moved i (fun _ y => - y) (w_hosts w) d = - sumZ d).
  { clear - Hfit. induction Hfit as [|y h ds hs (c & Hc & _) _ IH]; cbn [zip_moved sumZ]; [reflexivity|].
    rewrite Hc, IH. lia. }
  exists labels, d. split; [reflexivity|]. split; [exact Hd|]. split; [exact Hfit|].
  split; [lia|]. split; [lia|]. split; [reflexivity|]. cbn [with_hosts w_hosts]. split.
  - rewrite (field_sum_zip cI i _ (fun _ y => y)); [rewrite Hz, Hp; lia|].
    eapply Forall2_weaken; [|exact Hfit]. intros y h (c0 & Hc0 & Hy) c Hc.
    rewrite Hc in Hc0. injection Hc0 as <-. unfold give_pests. rewrite (pests_to_fits _ _ Hy). reflexivity.
  - rewrite (field_sum_zip cS i _ (fun _ y => - y)); [rewrite Hz, Hn; lia|].
    eapply Forall2_weaken; [|exact Hfit]. intros y h (c0 & Hc0 & Hy) c Hc.
    rewrite Hc in Hc0. injection Hc0 as <-. unfold give_pests. rewrite (pests_to_fits _ _ Hy). cbn [fst cS]. lia.
Qed.

Lemma draw_total_min count pops : 0 <= count -> draw_total count pops = Z.min count (sumZ pops).
Proof. intros H. unfold draw_total. destruct (count <? 0) eqn:E; [lia|reflexivity]. Qed.

Lemma sum_pops_at f i hs : sumZ (pops_at f i hs) = field_sum f i hs.
Proof. reflexivity. Qed.

(* pests_split_bounds restricted to what the overpopulation action needs *)
Corollary multi_pests_from_min i count w t x w' t' : 0 <= count ->
  multi_pests_from i count w t = Ok (x, w', t') -> x = Z.min count (field_sum cI i (w_hosts w)).
Proof.
  intros Hc H. apply multi_pests_from_spec in H as (labels & d & _ & _ & _ & _ & Hx & _).
  rewrite Hx, draw_total_min by exact Hc. reflexivity.
Qed.

Corollary multi_pests_to_min i count w t x w' t' : 0 <= count ->
  multi_pests_to i count w t = Ok (x, w', t') -> x = Z.min count (field_sum cS i (w_hosts w)).
Proof.
  intros Hc H. apply multi_pests_to_spec in H as (labels & d & _ & _ & _ & _ & Hx & _).
  rewrite Hx, draw_total_min by exact Hc. reflexivity.
Qed.


(* ================= overpopulation ================= *)

(* one iteration of the loop of overpop_departures: the cell (ri, ci) *)
Definition overpop_step (g : config) (ri ci : Z) (moves : list (nat * Z)) : W (list (nat * Z)) :=
  let* i := lift (idx_of g ri ci) in
  let* orig := multi_infected_at i in
  if orig <=? 1 then ret moves
  else
    let* th := multi_total_hosts_at i in
    if th =? 0 then fail UB_OutOfBounds else
    if Qle_bool (g_overpop_pct g) (zq orig / zq th)%Q then
      let* e := pop in
      match e with
      | EvOKernel i0 j0 row col =>
        if negb ((i0 =? ri) && (j0 =? ci)) then fail TapeMismatch else
        let leaving0 := qlround (zq orig * g_leaving_pct g) in
        let* leaving := multi_pests_from i leaving0 in
        if is_outside g row col then
          let* w := get in
          put (upd_outside w (w_outside w ++ repeat_pair (Z.to_nat leaving) (row, col))) ;;
          ret moves
        else
          let* t := lift (idx_of g row col) in
          ret (moves ++ [(t, leaving)])
      | _ => fail TapeMismatch
      end
    else ret moves.

Fixpoint overpop_go (g : config) (l : list (Z * Z)) (moves : list (nat * Z)) : W (list (nat * Z)) :=
  match l with
  | [] => ret moves
  | (ri, ci) :: r => let* moves' := overpop_step g ri ci moves in overpop_go g r moves'
  end.

(* the loop as written in LandDefs *)
Definition overpop_loop (g : config) :=
  fix go (l : list (Z * Z)) (moves : list (nat * Z)) : W (list (nat * Z)) :=
     match l with
     | [] => ret moves
     | (ri, ci) :: r =>
       let* i := lift (idx_of g ri ci) in
       let* orig := multi_infected_at i in
       if orig <=? 1 then go r moves
       else
         let* th := multi_total_hosts_at i in
         if th =? 0 then fail UB_OutOfBounds else
         if Qle_bool (g_overpop_pct g) (zq orig / zq th)%Q then
           let* e := pop in
           match e with
           | EvOKernel i0 j0 row col =>
             if negb ((i0 =? ri) && (j0 =? ci)) then fail TapeMismatch else
             let leaving0 := qlround (zq orig * g_leaving_pct g) in
             let* leaving := multi_pests_from i leaving0 in
             if is_outside g row col then
               let* w := get in
               put (upd_outside w (w_outside w ++ repeat_pair (Z.to_nat leaving) (row, col))) ;;
               go r moves
             else
               let* t := lift (idx_of g row col) in
               go r (moves ++ [(t, leaving)])
           | _ => fail TapeMismatch
           end
         else go r moves
     end.

Lemma overpop_departures_unfold g :
  overpop_departures g = (let* cells := suitable_cells in overpop_loop g cells []).
Proof. reflexivity. Qed.

Ltac assoc_step :=
  eapply meq_trans; [|apply meq_sym, mbind_assoc]; apply meq_bind; [apply meq_refl|intros ?].

Lemma overpop_loop_go g : forall l moves, meq (overpop_loop g l moves) (overpop_go g l moves).
Proof.
  induction l as [|[ri ci] r IH]; intros moves; [apply meq_refl|].
  cbn [overpop_loop overpop_go]. unfold overpop_step.
  assoc_step. assoc_step.
  destruct (_ <=? 1); [eapply meq_trans; [apply IH|apply meq_sym, mbind_ret_l]|].
  assoc_step.
  destruct (_ =? 0); [intros w t; reflexivity|].
  destruct (Qle_bool _ _); [|eapply meq_trans; [apply IH|apply meq_sym, mbind_ret_l]].
  assoc_step.
  match goal with |- meq (match ?e with _ => _ end) _ => destruct e end; try (intros w t; reflexivity).
  destruct (negb _); [intros w t; reflexivity|]. cbv zeta.
  assoc_step.
  destruct (is_outside g row col).
  - assoc_step. assoc_step. eapply meq_trans; [apply IH|apply meq_sym, mbind_ret_l].
  - assoc_step. eapply meq_trans; [apply IH|apply meq_sym, mbind_ret_l].
Qed.

Theorem overpop_departures_steps g :
  meq (overpop_departures g) (let* cells := suitable_cells in overpop_go g cells []).
Proof.
  rewrite overpop_departures_unfold. apply meq_bind; [apply meq_refl|]. intros cells. apply overpop_loop_go.
Qed.

(* ---- item 1: when do pests leave a cell ---- *)
Definition overpopulated (g : config) (orig th : Z) : Prop :=
  2 <= orig /\ Qle_bool (g_overpop_pct g) (zq orig / zq th)%Q = true.
Definition tape_suffix (t' t : tape) : Prop := exists pre, t = pre ++ t'.

(* what happens to the pests that leave: outside the study area they are
   recorded one by one, inside one move (target, count) is appended *)
Definition departure_recorded (g : config) (row col : Z) (leaving : Z)
           (moves moves' : list (nat * Z)) (w1 w' : world) : Prop :=
  if is_outside g row col
  then moves' = moves /\
       w' = upd_outside w1 (w_outside w1 ++ repeat_pair (Z.to_nat leaving) (row, col))
  else exists tg, idx_of g row col = Ok tg /\ moves' = moves ++ [(tg, leaving)] /\ w' = w1.

Theorem overpop_step_cases g ri ci moves w t moves' w' t' :
  overpop_step g ri ci moves w t = Ok (moves', w', t') ->
  exists i, idx_of g ri ci = Ok i /\ Forall (has_cell i) (w_hosts w) /\
    let orig := field_sum cI i (w_hosts w) in
    let th := field_sum cSI i (w_hosts w) in
    (~ overpopulated g orig th /\ moves' = moves /\ w' = w /\ t' = t) \/
    (overpopulated g orig th /\ th <> 0 /\
     exists row col t1 leaving w1,
       t = EvOKernel ri ci row col :: t1 /\
       multi_pests_from i (qlround (zq orig * g_leaving_pct g)) w t1 = Ok (leaving, w1, t') /\
       departure_recorded g row col leaving moves moves' w1 w').
Proof.
  unfold overpop_step. intros H.
  apply bind_inv in H as (i & s0 & t0 & E & H). apply lift_inv in E as (Ei & -> & ->).
  apply bind_inv in H as (orig & s0 & t0 & E & H).
  apply multi_infected_at_spec in E as (-> & -> & -> & Hall).
  exists i. split; [exact Ei|]. split; [exact Hall|]. cbv zeta. unfold overpopulated.
  destruct (Z.leb_spec (field_sum cI i (w_hosts w)) 1) as [Ho|Ho].
  { apply ret_inv in H as (-> & -> & ->). left. split; [lia|auto]. }
  apply bind_inv in H as (th & s0 & t0 & E & H).
  apply multi_total_hosts_at_spec in E as (-> & -> & -> & _).
  destruct (Z.eqb_spec (field_sum cSI i (w_hosts w)) 0) as [Hz|Hz]; [discriminate H|].
  destruct (Qle_bool _ _) eqn:Eq.
  2:{ apply ret_inv in H as (-> & -> & ->). left. split; [intros [_ C]; discriminate C|auto]. }
  right. split; [split; [lia|reflexivity]|]. split; [exact Hz|].
  apply bind_inv in H as (e & s0 & t1 & E & H). apply pop_inv in E as (-> & ->).
  destruct e as [| | |? ? ? ?|i0 j0 row col| | | |]; try discriminate H.
  destruct (Z.eqb_spec i0 ri) as [->|]; [|discriminate H].
  destruct (Z.eqb_spec j0 ci) as [->|]; [|discriminate H].
  cbn [andb negb] in H. cbv zeta in H.
  apply bind_inv in H as (leaving & w1 & t2 & E & H).
  exists row, col, t1, leaving, w1. split; [reflexivity|]. unfold departure_recorded.
  destruct (is_outside g row col).
  - apply bind_inv in H as (w0 & s0 & t3 & G & H). apply get_inv in G as (-> & -> & ->).
    apply bind_inv in H as (u & s0 & t4 & P & H). apply put_inv in P as (-> & ->).
    apply ret_inv in H as (-> & -> & ->). auto.
  - apply bind_inv in H as (tg & s0 & t3 & L & H). apply lift_inv in L as (Et & -> & ->).
    apply ret_inv in H as (-> & -> & ->). split; [exact E|]. exists tg. auto.
Qed.

Theorem overpop_leaves_iff g ri ci moves w t moves' w' t' i :
  overpop_step g ri ci moves w t = Ok (moves', w', t') -> idx_of g ri ci = Ok i ->
  let orig := field_sum cI i (w_hosts w) in
  let th := field_sum cSI i (w_hosts w) in
  ((exists row col t1, t = EvOKernel ri ci row col :: t1 /\ tape_suffix t' t1) <->
   (2 <= orig /\ Qle_bool (g_overpop_pct g) (zq orig / zq th)%Q = true)) /\
  (~ (2 <= orig /\ Qle_bool (g_overpop_pct g) (zq orig / zq th)%Q = true) ->
   moves' = moves /\ w' = w /\ t' = t).
Proof.
  intros H Ei. apply overpop_step_cases in H as (i0 & Ei0 & _ & H).
  rewrite Ei in Ei0. injection Ei0 as <-. cbv zeta in *. fold (overpopulated g (field_sum cI i (w_hosts w)) (field_sum cSI i (w_hosts w))).
  destruct H as [(Hn & -> & -> & ->)|(Hy & _ & row & col & t1 & leaving & w1 & -> & Hp & _)].
  - split; [|auto]. split; [|intros C; contradiction].
    intros (row & col & t1 & -> & pre & Hs). exfalso.
    apply (f_equal (@length event)) in Hs. rewrite app_length in Hs. cbn [length] in Hs. lia.
  - split; [|intros C; contradiction]. split; [intros _; exact Hy|]. intros _.
    exists row, col, t1. split; [reflexivity|].
    apply multi_pests_from_spec in Hp as (labels & d & -> & _). exists [EvDraw labels]. reflexivity.
Qed.

(* ---- item 2: how many leave and where they go ---- *)
Lemma repeat_pair_length n p : length (repeat_pair n p) = n.
Proof. induction n as [|n IH]; cbn [repeat_pair length]; auto. Qed.
Lemma repeat_pair_all n p : Forall (fun q => q = p) (repeat_pair n p).
Proof. induction n as [|n IH]; cbn [repeat_pair]; constructor; auto. Qed.
Lemma repeat_pair_repeat n p : repeat_pair n p = repeat p n.
Proof. induction n as [|n IH]; cbn [repeat_pair repeat]; [reflexivity|]. f_equal. exact IH. Qed.

Lemma leaving_request_bounds g orig : 0 <= orig -> (0 <= g_leaving_pct g <= 1)%Q ->
  0 <= qlround (zq orig * g_leaving_pct g) <= orig.
Proof.
  intros Ho Hp. destruct (scale_bounds orig (g_leaving_pct g) Ho Hp) as (A & B).
  apply qlround_bounds; assumption.
Qed.

Theorem overpop_leaving_count g ri ci moves w t moves' w' t' i :
  overpop_step g ri ci moves w t = Ok (moves', w', t') -> idx_of g ri ci = Ok i ->
  let orig := field_sum cI i (w_hosts w) in
  let th := field_sum cSI i (w_hosts w) in
  overpopulated g orig th ->
  exists row col labels leaving,
    let request := qlround (zq orig * g_leaving_pct g) in
    (* one kernel event gives the single destination; one draw splits the count over the hosts *)
    t = EvOKernel ri ci row col :: EvDraw labels :: t' /\
    leaving = draw_total request (pops_at cI i (w_hosts w)) /\
    ((0 <= g_leaving_pct g)%Q -> leaving = Z.min request orig) /\
    ((0 <= g_leaving_pct g <= 1)%Q -> leaving = request) /\
    (* the source: infected decrease, susceptible increase by the number collected *)
    w_hosts w' = hosts_zip i take_pests (w_hosts w) (counts_of labels (length (w_hosts w))) /\
    Forall2 (draw_fits cI i) (counts_of labels (length (w_hosts w))) (w_hosts w) /\
    sumZ (counts_of labels (length (w_hosts w))) = leaving /\
    field_sum cI i (w_hosts w') = orig - leaving /\
    field_sum cS i (w_hosts w') = field_sum cS i (w_hosts w) + leaving /\
    (* the destination *)
    (if is_outside g row col
     then moves' = moves /\
          w_outside w' = w_outside w ++ repeat_pair (Z.to_nat leaving) (row, col) /\
          length (repeat_pair (Z.to_nat leaving) (row, col)) = Z.to_nat leaving /\
          Forall (fun q => q = (row, col)) (repeat_pair (Z.to_nat leaving) (row, col))
     else exists tg, idx_of g row col = Ok tg /\ moves' = moves ++ [(tg, leaving)] /\
                     w_outside w' = w_outside w) /\
    w_disp w' = w_disp w /\ w_estab w' = w_estab w /\ w_soil w' = w_soil w /\
    w_last_index w' = w_last_index w.
Proof.
  intros H Ei orig th Hov. apply overpop_step_cases in H as (i0 & Ei0 & _ & H).
  rewrite Ei in Ei0. injection Ei0 as <-. cbv zeta in H. fold orig th in H.
  destruct H as [(Hn & _)|(_ & _ & row & col & t1 & leaving & w1 & -> & Hp & Hrec)]; [contradiction|].
  apply multi_pests_from_spec in Hp as (labels & d & -> & Hd & Hfit & Hsum & Hx & -> & HI & HS).
  exists row, col, labels, leaving. cbv zeta. subst d. split; [reflexivity|]. split; [exact Hx|].
  destruct Hov as [Ho _].
  assert (Hmin : (0 <= g_leaving_pct g)%Q -> leaving = Z.min (qlround (zq orig * g_leaving_pct g)) orig).
  { intros Hp. rewrite Hx. apply draw_total_min. apply qlround_nonneg.
    apply Qmult_le_0_compat; [apply (proj1 (zq_nonneg orig)); lia|exact Hp]. }
  split; [exact Hmin|]. split.
  { intros Hp. rewrite (Hmin (proj1 Hp)). pose proof (leaving_request_bounds g orig ltac:(lia) Hp). lia. }
  unfold departure_recorded in Hrec. cbn [with_hosts w_hosts] in HI, HS.
  assert (Hh : w_hosts w' = hosts_zip i take_pests (w_hosts w) (counts_of labels (length (w_hosts w)))).
  { destruct (is_outside g row col); [destruct Hrec as (_ & ->)|destruct Hrec as (tg & _ & _ & ->)]; reflexivity. }
  split; [exact Hh|]. split; [exact Hfit|]. split; [symmetry; exact Hsum|]. rewrite Hh.
  split; [exact HI|]. split; [exact HS|].
  destruct (is_outside g row col).
  - destruct Hrec as (-> & ->). cbn [upd_outside with_hosts w_outside w_disp w_estab w_soil w_last_index].
    repeat split; auto using repeat_pair_length, repeat_pair_all.
  - destruct Hrec as (tg & Et & -> & ->). cbn [with_hosts w_outside w_disp w_estab w_soil w_last_index].
    split; [exists tg; auto|]. auto.
Qed.


(* ---- item 3: departures first, then arrivals ---- *)
Definition arrive (mv : nat * Z) : W unit := let* _ := multi_pests_to (fst mv) (snd mv) in ret tt.

Lemma draw_fits_sum_nonneg f i d hs : Forall2 (draw_fits f i) d hs -> 0 <= sumZ d.
Proof. intros H. induction H as [|x h d hs (c & _ & Hx) _ IH]; cbn [sumZ]; lia. Qed.

Lemma overpop_step_moves_nonneg g ri ci moves w t moves' w' t' :
  overpop_step g ri ci moves w t = Ok (moves', w', t') ->
  Forall (fun mv => 0 <= snd mv) moves -> Forall (fun mv => 0 <= snd mv) moves'.
Proof.
  intros H Hm. apply overpop_step_cases in H as (i & _ & _ & H). cbv zeta in H.
  destruct H as [(_ & -> & _)|(_ & _ & row & col & t1 & leaving & w1 & _ & Hp & Hrec)]; [exact Hm|].
  unfold departure_recorded in Hrec. destruct (is_outside g row col).
  - destruct Hrec as (-> & _). exact Hm.
  - destruct Hrec as (tg & _ & -> & _). apply Forall_app. split; [exact Hm|]. constructor; [|constructor].
    cbn [snd]. apply multi_pests_from_spec in Hp as (labels & d & _ & _ & Hfit & -> & _).
    exact (draw_fits_sum_nonneg _ _ _ _ Hfit).
Qed.

Lemma overpop_go_moves_nonneg g : forall l moves w t moves' w' t',
  overpop_go g l moves w t = Ok (moves', w', t') ->
  Forall (fun mv => 0 <= snd mv) moves -> Forall (fun mv => 0 <= snd mv) moves'.
Proof.
  induction l as [|[ri ci] r IH]; intros moves w t moves' w' t' H Hm; cbn [overpop_go] in H.
  - apply ret_inv in H as (-> & _). exact Hm.
  - apply bind_inv in H as (m1 & w1 & t1 & E & H).
    eapply IH; [exact H|]. eapply overpop_step_moves_nonneg; eauto.
Qed.

Theorem overpop_two_phase_eq g :
  act_overpopulation g = (let* moves := overpop_departures g in mfold arrive moves).
Proof. reflexivity. Qed.

Theorem overpop_two_phase g w t u w' t' :
  act_overpopulation g w t = Ok (u, w', t') ->
  exists moves w1 t1,
    (* phase 1: every suitable cell is examined, the moves are only recorded *)
    overpop_departures g w t = Ok (moves, w1, t1) /\
    (exists h0, nth_error (w_hosts w) 0 = Some h0 /\
                overpop_go g (hp_suitable h0) [] w t = Ok (moves, w1, t1)) /\
    Forall (fun mv => 0 <= snd mv) moves /\
    (* phase 2: the recorded moves arrive, in the order recorded *)
    mfold arrive moves w1 t1 = Ok (u, w', t').
Proof.
  rewrite overpop_two_phase_eq. intros H. apply bind_inv in H as (moves & w1 & t1 & E & H).
  exists moves, w1, t1. split; [exact E|]. split; [|split; [|exact H]].
  - rewrite (overpop_departures_steps g w t) in E.
    apply bind_inv in E as (cells & s0 & t0 & Ec & E). unfold suitable_cells in Ec.
    apply bind_inv in Ec as (h0 & s1 & t2 & G & R). apply get_host_inv in G as (-> & -> & Hk).
    apply ret_inv in R as (-> & -> & ->). exists h0. auto.
  - rewrite (overpop_departures_steps g w t) in E.
    apply bind_inv in E as (cells & s0 & t0 & _ & E).
    eapply overpop_go_moves_nonneg; [exact E|constructor].
Qed.

(* one arrival: Z.min count (susceptibles) of the pests establish, split over
   the hosts by one validated draw; the others are lost *)
Theorem arrival_spec tg count w t u w' t' : 0 <= count ->
  arrive (tg, count) w t = Ok (u, w', t') ->
  exists labels,
    let d := counts_of labels (length (w_hosts w)) in
    let x := Z.min count (field_sum cS tg (w_hosts w)) in
    t = EvDraw labels :: t' /\ Forall2 (draw_fits cS tg) d (w_hosts w) /\ sumZ d = x /\
    w' = with_hosts w (hosts_zip tg give_pests (w_hosts w) d) /\
    field_sum cI tg (w_hosts w') = field_sum cI tg (w_hosts w) + x /\
    field_sum cS tg (w_hosts w') = field_sum cS tg (w_hosts w) - x /\
    0 <= x <= count.
Proof.
  intros Hc H. unfold arrive in H. cbn [fst snd] in H.
  apply bind_inv in H as (x & w1 & t1 & E & H). apply ret_inv in H as (_ & -> & ->).
  pose proof (multi_pests_to_min _ _ _ _ _ _ _ Hc E) as Hmin.
  apply multi_pests_to_spec in E as (labels & d & -> & -> & Hfit & Hs & _ & -> & HI & HS).
  exists labels. cbv zeta. rewrite <- Hmin.
  pose proof (draw_fits_sum_nonneg _ _ _ _ Hfit). repeat split; auto; lia.
Qed.


(* ================= item 4: the movement cursor ================= *)
Notation mrow := (list Z * Z)%type.

(* the longest prefix of the rows whose schedule equals [step] *)
Fixpoint applicable (step : Z) (rows : list mrow) : list mrow :=
  match rows with
  | [] => []
  | r :: rest => if snd r =? step then r :: applicable step rest else []
  end.

(* run move_hosts on each row, in order *)
Fixpoint apply_rows (g : config) (rows : list mrow) : W unit :=
  match rows with
  | [] => ret tt
  | (mv, _) :: r =>
    match mv with
    | [rf; cf; rt; ct; count] => let* _ := move_hosts g rf cf rt ct count in apply_rows g r
    | _ => fail UB_OutOfBounds
    end
  end.

Lemma applicable_all step rows : Forall (fun r => snd r = step) (applicable step rows).
Proof.
  induction rows as [|r rest IH]; cbn [applicable]; [constructor|].
  destruct (Z.eqb_spec (snd r) step); constructor; assumption.
Qed.

Lemma applicable_prefix step rows :
  rows = applicable step rows ++ skipn (length (applicable step rows)) rows.
Proof.
  induction rows as [|r rest IH]; cbn [applicable]; [reflexivity|].
  destruct (snd r =? step); [|reflexivity]. cbn [length skipn app]. f_equal. exact IH.
Qed.

Lemma applicable_maximal step rows :
  match skipn (length (applicable step rows)) rows with
  | [] => True
  | r :: _ => snd r <> step
  end.
Proof.
  induction rows as [|r rest IH]; cbn [applicable]; [exact I|].
  destruct (Z.eqb_spec (snd r) step); [exact IH|]. cbn [length skipn]. assumption.
Qed.

Theorem movement_loop_eq g step : forall rows i,
  meq (movement_loop g step rows i)
      (apply_rows g (applicable step rows) ;; ret (i + Z.of_nat (length (applicable step rows)))).
Proof.
  induction rows as [|[mv sched] r IH]; intros i; cbn [movement_loop applicable apply_rows snd].
  - intros w t. cbn [length]. unfold mbind, ret. do 3 f_equal. lia.
  - destruct (Z.eqb_spec sched step) as [->|Hne]; cbn [negb].
    + cbn [apply_rows].
      destruct mv as [|rf [|cf [|rt [|ct [|count [|x mv]]]]]]; try (intros w t; reflexivity).
      eapply meq_trans; [|apply meq_sym, mbind_assoc]. apply meq_bind; [apply meq_refl|]. intros u.
      eapply meq_trans; [apply IH|]. intros w t. unfold mbind.
      destruct (apply_rows g (applicable step r) w t) as [[[u1 w1] t1]|e]; [|reflexivity].
      cbn [length]. unfold ret. do 3 f_equal. lia.
    + intros w t. cbn [apply_rows length]. unfold mbind, ret. do 3 f_equal. lia.
Qed.

Theorem movement_loop_spec g step rows i w t j w' t' :
  movement_loop g step rows i w t = Ok (j, w', t') ->
  j = i + Z.of_nat (length (applicable step rows)) /\
  apply_rows g (applicable step rows) w t = Ok (tt, w', t').
Proof.
  rewrite (movement_loop_eq g step rows i w t). intros H.
  apply bind_inv in H as ([] & w1 & t1 & E & H). apply ret_inv in H as (-> & -> & ->). auto.
Qed.

(* a row that is due but does not hold exactly five numbers; a malformed row
   that is not due stops the loop like any other row that is not due *)
Theorem movement_loop_malformed g step mv r i w t : length mv <> 5%nat ->
  movement_loop g step ((mv, step) :: r) i w t = Err UB_OutOfBounds.
Proof.
  intros Hl. cbn [movement_loop]. rewrite Z.eqb_refl. cbn [negb].
  destruct mv as [|rf [|cf [|rt [|ct [|count [|x mv]]]]]]; try reflexivity. exfalso. apply Hl. reflexivity.
Qed.

Lemma apply_rows_malformed g mv s r w t : length mv <> 5%nat ->
  apply_rows g ((mv, s) :: r) w t = Err UB_OutOfBounds.
Proof.
  intros Hl. cbn [apply_rows].
  destruct mv as [|rf [|cf [|rt [|ct [|count [|x mv]]]]]]; try reflexivity. exfalso. apply Hl. reflexivity.
Qed.

Lemma apply_rows_app g : forall a b, meq (apply_rows g (a ++ b)) (apply_rows g a ;; apply_rows g b).
Proof.
  induction a as [|[mv s] a IH]; intros b; cbn [app apply_rows]; [intros w t; reflexivity|].
  destruct mv as [|rf [|cf [|rt [|ct [|count [|x mv]]]]]]; try (intros w t; reflexivity).
  eapply meq_trans; [|apply meq_sym, mbind_assoc]. apply meq_bind; [apply meq_refl|]. intros u. apply IH.
Qed.

(* ---- the cursor over the steps of a run ---- *)
(* rows applied at steps s, s+1, ..., s+n-1, starting with the rows [rest] not yet consumed *)
Fixpoint steps_applied (rest : list mrow) (s : Z) (n : nat) : list (list mrow) :=
  match n with
  | O => []
  | S n' => let a := applicable s rest in a :: steps_applied (skipn (length a) rest) (s + 1) n'
  end.

(* HostMovement::action at steps s, s+1, ... with the cursor threaded through *)
Fixpoint run_moves (g : config) (rows : list mrow) (s : Z) (n : nat) (cur : Z) : W Z :=
  match n with
  | O => ret cur
  | S n' =>
    let* cur' := movement_loop g s (skipn (Z.to_nat cur) rows) cur in
    run_moves g rows (s + 1) n' cur'
  end.

Lemma skipn_skipn {A} (l : list A) : forall a b, skipn a (skipn b l) = skipn (b + a) l.
Proof.
  induction l as [|x l IH]; intros a b; [destruct a, b; reflexivity|].
  destruct b as [|b]; [reflexivity|]. cbn [skipn Nat.add]. apply IH.
Qed.

Theorem run_moves_eq g rows : forall n s cur, 0 <= cur ->
  let applied := concat (steps_applied (skipn (Z.to_nat cur) rows) s n) in
  meq (run_moves g rows s n cur) (apply_rows g applied ;; ret (cur + Z.of_nat (length applied))).
Proof.
  induction n as [|n IH]; intros s cur Hc; cbn [run_moves steps_applied concat].
  - intros w t. cbn [apply_rows length]. unfold mbind, ret. do 3 f_equal. lia.
  - cbv zeta. set (rest := skipn (Z.to_nat cur) rows). set (a := applicable s rest).
    eapply meq_trans; [apply meq_bind; [apply movement_loop_eq|intros cur'; apply meq_refl]|].
    fold a. eapply meq_trans; [apply mbind_assoc|].
    eapply meq_trans; [|apply meq_sym; apply meq_bind; [apply apply_rows_app|intros u; apply meq_refl]].
    eapply meq_trans; [|apply meq_sym, mbind_assoc]. apply meq_bind; [apply meq_refl|]. intros u.
    eapply meq_trans; [apply mbind_ret_l|].
    eapply meq_trans; [apply IH; lia|]. cbv zeta.
    replace (skipn (Z.to_nat (cur + Z.of_nat (length a))) rows) with (skipn (length a) rest).
    2:{ unfold rest. rewrite skipn_skipn. f_equal. lia. }
    intros w t. unfold mbind.
    destruct (apply_rows g _ w t) as [[[u1 w1] t1]|e]; [|reflexivity].
    unfold ret. do 3 f_equal. rewrite app_length. lia.
Qed.

(* list level: with a non-decreasing schedule every row is met at its step *)
Lemma Sorted_le_tail (l : list Z) x : Sorted Z.le (x :: l) -> Forall (fun y => x <= y) l /\ Sorted Z.le l.
Proof.
  intros H. apply Sorted_StronglySorted in H; [|intros a b c; lia].
  inversion H as [|? ? Hs Hf]; subst. split; [exact Hf|]. apply StronglySorted_Sorted. exact Hs.
Qed.

Lemma applicable_split s : forall rest, Sorted Z.le (map snd rest) -> Forall (fun r => s <= snd r) rest ->
  let rest' := skipn (length (applicable s rest)) rest in
  Sorted Z.le (map snd rest') /\ Forall (fun r => s + 1 <= snd r) rest'.
Proof.
  induction rest as [|r rest IH]; intros Hs Hf; cbn [applicable].
  - cbn. split; constructor.
  - inversion Hf as [|? ? Hr Hf']; subst. cbn [map] in Hs. apply Sorted_le_tail in Hs as (Hall & Hs').
    destruct (Z.eqb_spec (snd r) s) as [E|Hne].
    + cbn [length skipn]. apply IH; assumption.
    + cbn [length skipn map]. split.
      * apply StronglySorted_Sorted. constructor; [|exact Hall].
        apply Sorted_StronglySorted; [intros a b c; lia|exact Hs'].
      * constructor; [lia|]. rewrite Forall_map in Hall. eapply Forall_impl; [|exact Hall].
        cbv beta. intros q Hq. lia.
Qed.

Lemma filter_all_false {A} (p : A -> bool) l : Forall (fun x => p x = false) l -> filter p l = [].
Proof. induction 1 as [|x l Hx _ IH]; cbn [filter]; [reflexivity|]. rewrite Hx. exact IH. Qed.
Lemma filter_all_true {A} (p : A -> bool) l : Forall (fun x => p x = true) l -> filter p l = l.
Proof. induction 1 as [|x l Hx _ IH]; cbn [filter]; [reflexivity|]. rewrite Hx, IH. reflexivity. Qed.

Theorem steps_applied_filter : forall n s rest,
  Sorted Z.le (map snd rest) -> Forall (fun r => s <= snd r) rest ->
  concat (steps_applied rest s n) = filter (fun r => snd r <? s + Z.of_nat n) rest.
Proof.
  induction n as [|n IH]; intros s rest Hs Hf; cbn [steps_applied concat].
  - symmetry. apply filter_all_false. eapply Forall_impl; [|exact Hf]. cbv beta. intros r Hr. lia.
  - cbv zeta. destruct (applicable_split s rest Hs Hf) as (Hs' & Hf').
    rewrite (IH (s + 1) _ Hs' Hf').
    transitivity (filter (fun r : mrow => snd r <? s + Z.of_nat (S n))
                         (applicable s rest ++ skipn (length (applicable s rest)) rest));
      [|rewrite <- applicable_prefix; reflexivity].
    rewrite filter_app. f_equal.
    + symmetry. apply filter_all_true. eapply Forall_impl; [|apply applicable_all]. cbv beta. intros r Hr. lia.
    + apply filter_ext. intros r. f_equal. lia.
Qed.

(* the k-th list holds rows scheduled for step s + k only *)
Lemma steps_applied_at_step : forall n s rest k,
  Forall (fun r => snd r = s + Z.of_nat k) (nth k (steps_applied rest s n) []).
Proof.
  induction n as [|n IH]; intros s rest k; cbn [steps_applied].
  - destruct k; constructor.
  - cbv zeta. destruct k as [|k]; cbn [nth].
    + replace (s + Z.of_nat 0) with s by lia. apply applicable_all.
    + replace (s + Z.of_nat (S k)) with (s + 1 + Z.of_nat k) by lia. apply IH.
Qed.

Lemma steps_applied_length : forall n s rest, length (steps_applied rest s n) = n.
Proof. induction n as [|n IH]; intros s rest; cbn [steps_applied length]; auto. Qed.

(* every row scheduled before step n is applied exactly once, at its step, in
   table order; the final cursor counts them *)
Theorem movement_exactly_once g rows n :
  Sorted Z.le (map snd rows) -> Forall (fun r => 0 <= snd r) rows ->
  let due := filter (fun r => snd r <? Z.of_nat n) rows in
  concat (steps_applied rows 0 n) = due /\
  (forall k, Forall (fun r => snd r = Z.of_nat k) (nth k (steps_applied rows 0 n) [])) /\
  meq (run_moves g rows 0 n 0) (apply_rows g due ;; ret (Z.of_nat (length due))).
Proof.
  intros Hs Hf due.
  assert (E : concat (steps_applied rows 0 n) = due) by (apply (steps_applied_filter n 0 rows Hs Hf)).
  split; [exact E|]. split; [intros k; apply (steps_applied_at_step n 0 rows k)|].
  pose proof (run_moves_eq g rows n 0 0 ltac:(lia)) as H. cbv zeta in H.
  change (skipn (Z.to_nat 0) rows) with rows in H. rewrite E in H. exact H.
Qed.

(* without the ordering a row can be skipped for ever: the cursor stops at the
   first row that is not due and never looks behind it *)
Example movement_unsorted_skips :
  steps_applied [([0; 0; 0; 1; 5], 1); ([0; 1; 0; 0; 3], 0)] 0 3 = [[]; [([0; 0; 0; 1; 5], 1)]; []].
Proof. reflexivity. Qed.


(* ================= item 5: HostPool::move_hosts_from_to ================= *)
Definition in_suitable (rt ct : Z) (l : list (Z * Z)) : bool :=
  existsb (fun rc => (fst rc =? rt) && (snd rc =? ct)) l.

(* the suitable cells of host 0 after a movement into cell (rt, ct) that held [th] hosts *)
Definition suitable_after (th : Z) (rt ct : Z) (l : list (Z * Z)) : list (Z * Z) :=
  if (th =? 0) && negb (in_suitable rt ct l) then l ++ [(rt, ct)] else l.

(* host 0 after the movement *)
Definition moved_host (h : hostpool) (ifrom ito : nat) (rt ct : Z) (th_to : Z)
           (sm : Z) (ed : list Z) (im em rm : Z) (md : list Z) (moved : Z) : hostpool :=
  mkhp (upd_nth (upd_nth (hp_cells h) ifrom (fun c => move_out c sm ed im em rm md moved))
                ito (fun c => move_in c sm ed im em rm md moved))
       (suitable_after th_to rt ct (hp_suitable h)).

Lemma in_suitable_In rt ct l : in_suitable rt ct l = true <-> In (rt, ct) l.
Proof.
  unfold in_suitable. rewrite existsb_exists. split.
  - intros ([a b] & Hin & E). cbn [fst snd] in E. apply andb_true_iff in E as (A & B).
    apply Z.eqb_eq in A, B. subst. exact Hin.
  - intros Hin. exists (rt, ct). split; [exact Hin|]. cbn [fst snd]. rewrite !Z.eqb_refl. reflexivity.
Qed.

Theorem move_hosts_exact g rf cf rt ct count w t moved w' t' :
  move_hosts g rf cf rt ct count w t = Ok (moved, w', t') ->
  exists ifrom ito h rest c cto labels ed md t1,
    idx_of g rf cf = Ok ifrom /\ idx_of g rt ct = Ok ito /\
    w_hosts w = h :: rest /\
    nth_error (hp_cells h) ifrom = Some c /\ nth_error (hp_cells h) ito = Some cto /\
    moved = Z.min count (cTH c) /\
    t = EvDraw labels :: t1 /\ labels_below labels 1 5 = true /\
    let im := count_label labels 1 in let sm := count_label labels 2 in
    let em := count_label labels 3 in let rm := count_label labels 4 in
    move_draw_ok c sm ed im em rm md moved /\
    w' = with_hosts w (moved_host h ifrom ito rt ct (cTH cto) sm ed im em rm md moved :: rest).
Proof.
  intros H. unfold move_hosts in H. cbv zeta in H.
  apply bind_inv in H as (ifrom & s0 & t0 & E & H). apply lift_inv in E as (Eif & -> & ->).
  apply bind_inv in H as (ito & s0 & t0 & E & H). apply lift_inv in E as (Eit & -> & ->).
  apply bind_inv in H as (c & s0 & t0 & E & H). apply get_cell_inv in E as (-> & -> & h & Hk & Hc).
  apply bind_inv in H as (e & s0 & t0 & E & H). apply pop_inv in E as (-> & ->).
  destruct e as [labels| | | | | | | |]; try discriminate H.
  destruct (labels_below labels 1 5) eqn:Hlb; [|discriminate H]. cbn [negb] in H.
  match type of H with (if negb ?v then _ else _) _ _ = _ => destruct v eqn:V4; [|discriminate H] end.
  cbn [negb] in H.
  apply bind_inv in H as (ed & s1 & t1 & E1 & H).
  apply bind_inv in H as (u1 & s2 & t2 & E2 & H).
  destruct (draw_phase_inv _ _ _ _ _ _ _ _ _ _ E1 E2) as (-> & -> & Hed). clear E1 E2.
  apply bind_inv in H as (md & s1 & t3 & E1 & H).
  apply bind_inv in H as (u2 & s2 & t4 & E2 & H).
  destruct (draw_phase_inv _ _ _ _ _ _ _ _ _ _ E1 E2) as (-> & -> & Hmd). clear E1 E2.
  apply bind_inv in H as (cto & s0 & t5 & E & H). apply get_cell_inv in E as (-> & -> & h' & Hk' & Hcto).
  rewrite Hk in Hk'. injection Hk' as <-.
  destruct (w_hosts w) as [|h0 rest] eqn:Ew; [discriminate Hk|]. cbn [nth_error] in Hk. injection Hk as ->.
  set (sm := count_label labels 2) in *. set (im := count_label labels 1) in *.
  set (em := count_label labels 3) in *. set (rm := count_label labels 4) in *.
  set (moved0 := if count >? cTH c then cTH c else count) in *.
  set (suit' := suitable_after (cTH cto) rt ct (hp_suitable h)).
  apply bind_inv in H as (u3 & w1 & t6 & E & H).
  assert (Hw1 : w1 = with_hosts w (mkhp (hp_cells h) suit' :: rest)).
  { unfold suit', suitable_after. destruct (cTH cto =? 0); cbn [andb].
    - apply bind_inv in E as (h1 & s0 & t7 & G & E). apply get_host_inv in G as (-> & -> & Hk1).
      rewrite Ew in Hk1. cbn [nth_error] in Hk1. injection Hk1 as <-.
      fold (in_suitable rt ct (hp_suitable h)) in E. destruct (in_suitable rt ct (hp_suitable h)); cbn [negb].
      + apply ret_inv in E as (_ & -> & _). rewrite <- (with_hosts_same w) at 1. rewrite Ew. destruct h; reflexivity.
      + apply set_host_exact in E as (_ & ->). rewrite Ew. reflexivity.
    - apply ret_inv in E as (_ & -> & _). rewrite <- (with_hosts_same w) at 1. rewrite Ew. destruct h; reflexivity. }
  clear E. subst w1.
  apply bind_inv in H as (c1 & s0 & t7 & E & H). apply get_cell_inv in E as (-> & -> & h1 & Hk1 & Hc1).
  cbn [with_hosts w_hosts nth_error] in Hk1. injection Hk1 as <-. cbn [hp_cells] in Hc1.
  rewrite Hc in Hc1. injection Hc1 as <-.
  apply bind_inv in H as (u4 & w2 & t8 & Es1 & H). apply set_cell_exact in Es1 as (-> & -> & _).
  cbn [with_hosts w_hosts upd_nth] in H. unfold host_upd at 1 in H. cbn [hp_cells hp_suitable] in H.
  apply bind_inv in H as (c2 & s0 & t9 & E & H). apply get_cell_inv in E as (-> & -> & h2 & Hk2 & Hc2).
  cbn [w_hosts nth_error] in Hk2. injection Hk2 as <-. cbn [hp_cells] in Hc2.
  apply bind_inv in H as (u5 & w3 & t10 & Es2 & H). apply set_cell_exact in Es2 as (-> & -> & _).
  apply ret_inv in H as (-> & -> & ->).
  exists ifrom, ito, h, rest, c, cto, labels, ed, md, t0.
  split; [exact Eif|]. split; [exact Eit|]. split; [reflexivity|]. split; [exact Hc|]. split; [exact Hcto|].
  split; [subst moved0; destruct (count >? cTH c) eqn:E; lia|].
  split; [reflexivity|]. split; [exact Hlb|]. cbv zeta.
  split; [split; [exact V4|split; assumption]|].
  cbn [with_hosts w_hosts upd_nth w_disp w_estab w_outside w_soil w_weather w_totpop w_other w_temp w_last_index].
  unfold with_hosts. f_equal. f_equal. unfold host_upd, moved_host. cbn [hp_cells hp_suitable]. f_equal.
  fold sm im em rm.
  rewrite <- (upd_nth_const _ _ (fun c0 => move_out c0 sm ed im em rm md moved0) _ Hc).
  exact (upd_nth_const _ _ (fun c0 => move_in c0 sm ed im em rm md moved0) _ Hc2).
Qed.

Lemma upd_nth_fix {A} (l : list A) : forall i f c, nth_error l i = Some c -> f c = c -> upd_nth l i f = l.
Proof.
  induction l as [|x r IH]; intros [|i] f c H E; cbn [nth_error upd_nth] in *; try discriminate.
  - injection H as ->. rewrite E. reflexivity.
  - f_equal. eapply IH; eauto.
Qed.

Lemma cell_at_with_hosts w hs k j :
  cell_at (with_hosts w hs) k j = match nth_error hs k with Some h => nth_error (hp_cells h) j | None => None end.
Proof. reflexivity. Qed.

(* cell by cell: the source loses the drawn hosts, the destination gains them *)
Theorem move_hosts_cells g rf cf rt ct count w t moved w' t' :
  move_hosts g rf cf rt ct count w t = Ok (moved, w', t') ->
  exists ifrom ito c cto sm ed im em rm md,
    idx_of g rf cf = Ok ifrom /\ idx_of g rt ct = Ok ito /\
    cell_at w 0 ifrom = Some c /\ cell_at w 0 ito = Some cto /\
    moved = Z.min count (cTH c) /\
    move_draw_ok c sm ed im em rm md moved /\
    (exists hs, w' = with_hosts w hs) /\
    forall k j, cell_at w' k j =
      if Nat.eqb k 0 && Nat.eqb j ito
      then Some (move_in (if Nat.eqb ito ifrom then move_out c sm ed im em rm md moved else cto)
                         sm ed im em rm md moved)
      else if Nat.eqb k 0 && Nat.eqb j ifrom then Some (move_out c sm ed im em rm md moved)
      else cell_at w k j.
Proof.
  intros H. apply move_hosts_exact in H
    as (ifrom & ito & h & rest & c & cto & labels & ed & md & t1 & Eif & Eit & Ew & Hc & Hcto & Hm & _ & _ & H).
  cbv zeta in H. destruct H as (Hok & ->).
  exists ifrom, ito, c, cto, (count_label labels 2), ed, (count_label labels 1),
         (count_label labels 3), (count_label labels 4), md.
  split; [exact Eif|]. split; [exact Eit|].
  split; [unfold cell_at; rewrite Ew; exact Hc|]. split; [unfold cell_at; rewrite Ew; exact Hcto|].
  split; [exact Hm|]. split; [exact Hok|]. split; [eexists; reflexivity|].
  intros k j. rewrite cell_at_with_hosts. unfold cell_at. rewrite Ew.
  destruct k as [|k]; cbn [nth_error Nat.eqb andb]; [|reflexivity].
  unfold moved_host. cbn [hp_cells]. rewrite upd_nth_nth.
  destruct (Nat.eqb j ito) eqn:Ej.
  - rewrite upd_nth_nth. destruct (Nat.eqb ito ifrom) eqn:Eio.
    + rewrite Hc. reflexivity.
    + rewrite Hcto. reflexivity.
  - rewrite upd_nth_nth. destruct (Nat.eqb j ifrom); [rewrite Hc|]; reflexivity.
Qed.

(* The equation moved = Z.min count (cTH c) and the cell updates hold without
   any assumption; Inv0 of the source cell and 0 <= count are only needed to
   turn the validated draws into bounds (last clause). *)
Theorem moved_is_min g rf cf rt ct count w t moved w' t' :
  move_hosts g rf cf rt ct count w t = Ok (moved, w', t') ->
  exists ifrom ito c cto,
    idx_of g rf cf = Ok ifrom /\ idx_of g rt ct = Ok ito /\
    cell_at w 0 ifrom = Some c /\ cell_at w 0 ito = Some cto /\
    moved = Z.min count (cTH c) /\
    (* different cells: total hosts move from the source to the destination *)
    (ito <> ifrom -> exists c' cto',
       cell_at w' 0 ifrom = Some c' /\ cTH c' = cTH c - moved /\
       cell_at w' 0 ito = Some cto' /\ cTH cto' = cTH cto + moved) /\
    (* same cell: nothing changes *)
    (ito = ifrom -> forall k j, cell_at w' k j = cell_at w k j) /\
    (* no other cell of any host changes *)
    (forall k j, (k, j) <> (0%nat, ifrom) -> (k, j) <> (0%nat, ito) -> cell_at w' k j = cell_at w k j) /\
    (* only the hosts are touched *)
    (exists hs, w' = with_hosts w hs) /\
    (* what moved, class by class and cohort by cohort, is a validated draw *)
    exists sm ed im em rm md,
      move_draw_ok c sm ed im em rm md moved /\
      (ito <> ifrom ->
       cell_at w' 0 ifrom = Some (move_out c sm ed im em rm md moved) /\
       cell_at w' 0 ito = Some (move_in cto sm ed im em rm md moved)) /\
      (Inv0 c -> 0 <= count ->
       0 <= moved <= cTH c /\
       0 <= sm <= cS c /\ 0 <= im <= cI c /\ 0 <= em <= cTE c /\ 0 <= rm <= cR c /\
       sm + im + em + rm = moved /\
       pointwise_le ed (cE c) /\ sumZ ed = em /\
       pointwise_le md (cM c) /\ sumZ md = Z.min im (sumZ (cM c))).
Proof.
  intros H. apply move_hosts_cells in H
    as (ifrom & ito & c & cto & sm & ed & im & em & rm & md & Eif & Eit & Hc & Hcto & Hm & Hok & Hw & Hcells).
  exists ifrom, ito, c, cto. split; [exact Eif|]. split; [exact Eit|]. split; [exact Hc|].
  split; [exact Hcto|]. split; [exact Hm|].
  assert (Hdiff : ito <> ifrom ->
       cell_at w' 0 ifrom = Some (move_out c sm ed im em rm md moved) /\
       cell_at w' 0 ito = Some (move_in cto sm ed im em rm md moved)).
  { intros Hne. rewrite !Hcells. cbn [Nat.eqb andb]. rewrite !Nat.eqb_refl.
    destruct (Nat.eqb_spec ito ifrom) as [|_]; [contradiction|].
    destruct (Nat.eqb_spec ifrom ito) as [E|_]; [symmetry in E; contradiction|]. auto. }
  split; [|split; [|split; [|split; [exact Hw|]]]].
  - intros Hne. destruct (Hdiff Hne) as (A & B).
    eexists; eexists. split; [exact A|]. split; [reflexivity|]. split; [exact B|]. reflexivity.
  - intros -> k j. rewrite Hcells, Nat.eqb_refl. rewrite Hc in Hcto. injection Hcto as <-.
    rewrite move_same_cell_eq.
    destruct k as [|k]; cbn [Nat.eqb andb]; [|reflexivity].
    destruct (Nat.eqb_spec j ifrom) as [->|_]; [symmetry; exact Hc|reflexivity].
  - intros k j H1 H2. rewrite Hcells.
    destruct k as [|k]; cbn [Nat.eqb andb]; [|reflexivity].
    destruct (Nat.eqb_spec j ito) as [->|_]; [contradiction H2; reflexivity|].
    destruct (Nat.eqb_spec j ifrom) as [->|_]; [contradiction H1; reflexivity|]. reflexivity.
  - exists sm, ed, im, em, rm, md. split; [exact Hok|]. split; [exact Hdiff|].
    intros I0 Hcount. pose proof (Inv0_TH_nonneg _ I0) as Hth.
    assert (Hmv : 0 <= moved <= cTH c) by lia.
    split; [exact Hmv|]. exact (move_draw_ok_facts _ _ _ _ _ _ _ _ I0 Hmv Hok).
Qed.

Lemma NoDup_snoc {A} (l : list A) p : NoDup l -> ~ In p l -> NoDup (l ++ [p]).
Proof.
  induction 1 as [|x l Hx Hl IH]; intros Hp; cbn [app]; [constructor; [intros []|constructor]|].
  constructor.
  - intros C. apply in_app_or in C as [C|[<-|[]]]; [contradiction|]. apply Hp. left. reflexivity.
  - apply IH. intros C. apply Hp. right. exact C.
Qed.

Theorem destination_becomes_suitable g rf cf rt ct count w t moved w' t' :
  move_hosts g rf cf rt ct count w t = Ok (moved, w', t') ->
  exists ito cto h h',
    idx_of g rt ct = Ok ito /\ cell_at w 0 ito = Some cto /\
    nth_error (w_hosts w) 0 = Some h /\ nth_error (w_hosts w') 0 = Some h' /\
    tl (w_hosts w') = tl (w_hosts w) /\
    hp_suitable h' = suitable_after (cTH cto) rt ct (hp_suitable h) /\
    (* an empty destination is suitable afterwards: appended once if absent *)
    (cTH cto = 0 ->
     In (rt, ct) (hp_suitable h') /\
     (In (rt, ct) (hp_suitable h) -> hp_suitable h' = hp_suitable h) /\
     (~ In (rt, ct) (hp_suitable h) -> hp_suitable h' = hp_suitable h ++ [(rt, ct)])) /\
    (* otherwise the list is unchanged *)
    (cTH cto <> 0 -> hp_suitable h' = hp_suitable h) /\
    (NoDup (hp_suitable h) -> NoDup (hp_suitable h')).
Proof.
  intros H. apply move_hosts_exact in H
    as (ifrom & ito & h & rest & c & cto & labels & ed & md & t1 & _ & Eit & Ew & _ & Hcto & _ & _ & _ & H).
  cbv zeta in H. destruct H as (_ & ->).
  eexists ito, cto, h, _. split; [exact Eit|]. split; [unfold cell_at; rewrite Ew; exact Hcto|].
  split; [rewrite Ew; reflexivity|]. split; [reflexivity|]. split; [rewrite Ew; reflexivity|].
  unfold moved_host. cbn [hp_suitable]. split; [reflexivity|].
  unfold suitable_after.
  destruct (in_suitable rt ct (hp_suitable h)) eqn:Es.
  - rewrite andb_false_r. apply in_suitable_In in Es.
    split; [intros _; split; [exact Es|split; [reflexivity|intros C; contradiction]]|]. auto.
  - rewrite andb_true_r.
    assert (Hn : ~ In (rt, ct) (hp_suitable h)).
    { intros C. apply in_suitable_In in C. congruence. }
    destruct (Z.eqb_spec (cTH cto) 0) as [E0|E0].
    + split; [intros _; split; [apply in_or_app; right; left; reflexivity|
                                 split; [intros C; contradiction|reflexivity]]|].
      split; [intros C; contradiction|]. intros Hnd.
      apply NoDup_snoc; assumption.
    + split; [intros C; contradiction|]. auto.
Qed.


(* ---- HostMovement::action itself: the cursor lives in Model::last_index ---- *)
(* computations that neither read nor write the cursor *)
Definition li_indep {A} (m : W A) : Prop :=
  forall w t k, m (upd_last_index w k) t =
    match m w t with Ok (a, w', t') => Ok (a, upd_last_index w' k, t') | Err e => Err e end.

Lemma li_ret {A} (a : A) : li_indep (ret a).
Proof. intros w t k. reflexivity. Qed.
Lemma li_fail {A} e : li_indep (@fail world A e).
Proof. intros w t k. reflexivity. Qed.
Lemma li_lift {A} (r : result A) : li_indep (lift r).
Proof. intros w t k. unfold lift. destruct r; reflexivity. Qed.
Lemma li_pop : li_indep (@pop world).
Proof. intros w t k. unfold pop. destruct t; reflexivity. Qed.
Lemma li_bind {A B} (m : W A) (f : A -> W B) :
  li_indep m -> (forall a, li_indep (f a)) -> li_indep (mbind m f).
Proof.
  intros Hm Hf w t k. unfold mbind. rewrite Hm.
  destruct (m w t) as [[[a w1] t1]|e]; [apply Hf|reflexivity].
Qed.
Lemma li_get_host j : li_indep (get_host j).
Proof.
  intros w t k. unfold get_host, mbind, get, lift. cbn [upd_last_index w_hosts].
  destruct (rget (w_hosts w) j); reflexivity.
Qed.
Lemma li_set_host j h : li_indep (set_host j h).
Proof.
  intros w t k. unfold set_host, mbind, get, lift, put. cbn [upd_last_index w_hosts].
  destruct (rset (w_hosts w) j h); reflexivity.
Qed.

Ltac li_step :=
  match goal with
  | |- li_indep (mbind _ _) => apply li_bind; [|intros ?]
  | |- li_indep (ret _) => apply li_ret
  | |- li_indep (fail _) => apply li_fail
  | |- li_indep (lift _) => apply li_lift
  | |- li_indep pop => apply li_pop
  | |- li_indep (get_host _) => apply li_get_host
  | |- li_indep (set_host _ _) => apply li_set_host
  | |- li_indep (if ?b then _ else _) => destruct b
  | |- li_indep (match ?x with _ => _ end) => destruct x
  end.
Ltac li := repeat li_step.

Lemma li_get_cell j i : li_indep (get_cell j i).
Proof. unfold get_cell. li. Qed.
Lemma li_set_cell j i c : li_indep (set_cell j i c).
Proof. unfold set_cell. li. Qed.
Lemma li_pop_draw n : li_indep (pop_draw n).
Proof. unfold pop_draw. li. Qed.

Lemma li_move_hosts g rf cf rt ct count : li_indep (move_hosts g rf cf rt ct count).
Proof.
  unfold move_hosts. cbv zeta.
  repeat first [li_step | apply li_get_cell | apply li_set_cell | apply li_pop_draw].
Qed.

Lemma li_movement_loop g step : forall rows i, li_indep (movement_loop g step rows i).
Proof.
  induction rows as [|[mv sched] r IH]; intros i; cbn [movement_loop]; [apply li_ret|].
  destruct (negb _); [apply li_ret|].
  destruct mv as [|rf [|cf [|rt [|ct [|count [|x mv]]]]]]; try apply li_fail.
  apply li_bind; [apply li_move_hosts|]. intros u. apply IH.
Qed.

Lemma li_run_moves g rows : forall n s cur, li_indep (run_moves g rows s n cur).
Proof.
  induction n as [|n IH]; intros s cur; cbn [run_moves]; [apply li_ret|].
  apply li_bind; [apply li_movement_loop|]. intros c. apply IH.
Qed.

(* n consecutive calls of HostMovement::action, at steps s, s+1, ... *)
Fixpoint run_acts (g : config) (rows : list mrow) (s : Z) (n : nat) : W unit :=
  match n with
  | O => ret tt
  | S n' => act_movement g s rows ;; run_acts g rows (s + 1) n'
  end.

Lemma upd_last_index_twice w a b : upd_last_index (upd_last_index w a) b = upd_last_index w b.
Proof. reflexivity. Qed.
Lemma upd_last_index_same w : upd_last_index w (w_last_index w) = w.
Proof. destruct w; reflexivity. Qed.

Lemma act_movement_unfold g step rows w t :
  act_movement g step rows w t =
  match movement_loop g step (skipn (Z.to_nat (w_last_index w)) rows) (w_last_index w) w t with
  | Ok (k, w1, t1) => Ok (tt, upd_last_index w1 k, t1)
  | Err e => Err e
  end.
Proof.
  unfold act_movement, mbind, get, put.
  destruct (movement_loop g step _ _ w t) as [[[k w1] t1]|e]; reflexivity.
Qed.

Theorem run_acts_run_moves g rows : forall n s w t,
  run_acts g rows s n w t =
  match run_moves g rows s n (w_last_index w) w t with
  | Ok (j, w', t') => Ok (tt, upd_last_index w' j, t')
  | Err e => Err e
  end.
Proof.
  induction n as [|n IH]; intros s w t; cbn [run_acts run_moves].
  - unfold ret. rewrite upd_last_index_same. reflexivity.
  - unfold mbind at 1. rewrite act_movement_unfold. unfold mbind.
    destruct (movement_loop g s _ _ w t) as [[[k w1] t1]|e]; [|reflexivity].
    rewrite IH. cbn [upd_last_index w_last_index]. rewrite (li_run_moves g rows n (s + 1) k w1 t1 k).
    destruct (run_moves g rows (s + 1) n k w1 t1) as [[[j w2] t2]|e]; reflexivity.
Qed.

(* HostMovement::action called once per step 0 .. n-1 from a fresh cursor applies
   exactly the rows scheduled before step n, once each, in table order *)
Theorem act_movement_exactly_once g rows n w t :
  Sorted Z.le (map snd rows) -> Forall (fun r => 0 <= snd r) rows -> w_last_index w = 0 ->
  let due := filter (fun r => snd r <? Z.of_nat n) rows in
  run_acts g rows 0 n w t =
  match apply_rows g due w t with
  | Ok (_, w', t') => Ok (tt, upd_last_index w' (Z.of_nat (length due)), t')
  | Err e => Err e
  end.
Proof.
  intros Hs Hf H0 due. rewrite run_acts_run_moves, H0.
  destruct (movement_exactly_once g rows n Hs Hf) as (_ & _ & E). fold due in E. rewrite (E w t).
  unfold mbind. destruct (apply_rows g due w t) as [[[u w1] t1]|e]; reflexivity.
Qed.

Print Assumptions multi_pests_from_spec.
Print Assumptions multi_pests_to_spec.
Print Assumptions overpop_departures_steps.
Print Assumptions overpop_leaves_iff.
Print Assumptions overpop_leaving_count.
Print Assumptions overpop_two_phase.
Print Assumptions arrival_spec.
Print Assumptions movement_loop_spec.
Print Assumptions movement_loop_malformed.
Print Assumptions movement_exactly_once.
Print Assumptions act_movement_exactly_once.
Print Assumptions move_hosts_exact.
Print Assumptions moved_is_min.
Print Assumptions destination_becomes_suitable.
