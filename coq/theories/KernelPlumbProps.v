(* Kernels engine (C13), parameter plumbing: each kernel class hands its
   parameters to the std distribution so that the ISO density equals the
   kernel's own pdf; icdf-sampled kernels invert their own cdf. *)
From Coq Require Import ZArith Reals String List Bool Lra Lia.
From Coquelicot Require Import Coquelicot.
From Pops Require Import Err KernelTypesDefs GeneratedKernelTables KernelGeomProps KernelPlumbDefs.
Import ListNotations.
Local Open Scope R_scope.

Lemma Rb_eq_false x y : x <> y -> Rb_eq x y = false.
Proof. intros H. unfold Rb_eq. destruct (Req_EM_T x y); congruence. Qed.

Lemma sqrt_2PI_pos : 0 < sqrt (2 * PI).
Proof. apply sqrt_lt_R0. pose proof PI_RGT_0. lra. Qed.

(* ---------- std-distribution kernels ---------- *)
Lemma cauchy_plumbing G scale shape x : 0 < scale ->
  radial_distance KCauchy scale shape = Ok (DrawStd (StdCauchy 0 scale) true, true) /\
  iso_density G (StdCauchy 0 scale) x = cauchy_pdf scale x /\
  cauchy_pdf scale (- x) = cauchy_pdf scale x.
Proof.
  intros Hs. pose proof PI_RGT_0. split; [reflexivity|]. unfold iso_density, cauchy_pdf. split.
  - replace ((x - 0) / scale) with (x / scale) by (unfold Rdiv; ring).
    replace (PI * scale * (1 + (x / scale) ^ 2)) with (scale * PI * (1 + (x / scale) ^ 2)) by ring.
    unfold Rdiv. ring.
  - f_equal. f_equal. f_equal. unfold Rdiv. ring.
Qed.

Lemma exponential_plumbing G scale shape x : 0 < scale ->
  radial_distance KExponential scale shape = Ok (DrawStd (StdExponential (1 / scale)) true, true) /\
  iso_density G (StdExponential (1 / scale)) x = exponential_pdf scale x.
Proof.
  intros Hs. split; [reflexivity|]. unfold iso_density, exponential_pdf.
  f_equal. f_equal. field. lra.
Qed.

Lemma weibull_plumbing G scale shape x :
  radial_distance KWeibull scale shape = Ok (DrawStd (StdWeibull shape scale) true, true) /\
  iso_density G (StdWeibull shape scale) x = weibull_pdf scale shape x.
Proof. split; reflexivity. Qed.

Lemma normal_plumbing G scale shape x : 0 < scale ->
  radial_distance KNormal scale shape = Ok (DrawStd (StdNormal 0 scale) true, true) /\
  iso_density G (StdNormal 0 scale) x = normal_pdf scale x /\
  normal_pdf scale (- x) = normal_pdf scale x.
Proof.
  intros Hs. pose proof sqrt_2PI_pos. split; [reflexivity|]. unfold iso_density, normal_pdf. split.
  - destruct (Rb_eq scale 1) eqn:E.
    + apply Rb_eq_true in E. subst scale. f_equal; [f_equal; ring|]. f_equal. field.
    + f_equal. f_equal. field. lra.
  - destruct (Rb_eq scale 1); f_equal; f_equal; f_equal; unfold Rdiv; ring.
Qed.

Lemma lognormal_plumbing G scale shape x : 0 < scale -> 0 < x ->
  radial_distance KLogNormal scale shape = Ok (DrawStd (StdLognormal 0 scale) true, true) /\
  iso_density G (StdLognormal 0 scale) x = lognormal_pdf scale x.
Proof.
  intros Hs Hx. split; [reflexivity|]. unfold iso_density, lognormal_pdf.
  rewrite Rb_eq_false by lra. f_equal.
  - f_equal. ring.
  - f_equal. unfold Rdiv. ring.
Qed.

Lemma gamma_plumbing G scale shape x :
  radial_distance KGamma scale shape = Ok (DrawStd (StdGamma scale shape) true, true) /\
  iso_density G (StdGamma scale shape) x = gamma_pdf G scale shape x.
Proof.
  split; [reflexivity|]. unfold iso_density, gamma_pdf.
  replace (Rpower shape scale * G scale) with (G scale * Rpower shape scale) by ring.
  unfold Rdiv. ring.
Qed.

(* ---------- kernels drawn as icdf(U), U uniform on (0,1) ---------- *)
Lemma inverse_transform_of_inverse F q :
  (forall x y, x < y -> F x < F y) -> (forall u, 0 < u < 1 -> F (q u) = u) ->
  inverse_transform F q.
Proof.
  intros Hmono Hinv u x Hu. split; intros H.
  - rewrite <- (Hinv u Hu). destruct H as [H|H]; [left; apply Hmono; exact H | right; f_equal; exact H].
  - destruct (Rle_dec (q u) x) as [Hl|Hl]; [exact Hl|].
    assert (Hlt : x < q u) by lra. apply Hmono in Hlt. rewrite (Hinv u Hu) in Hlt. lra.
Qed.

(* logistic *)
Lemma logistic_pdf_general s x : 0 < s ->
  logistic_pdf s x = exp (- x / s) / (s * (1 + exp (- x / s)) ^ 2).
Proof.
  intros Hs. unfold logistic_pdf. destruct (Rb_eq s 1) eqn:E; [|reflexivity].
  apply Rb_eq_true in E. subst s.
  replace (- x / 1) with (- x) by field. field.
  pose proof (exp_pos (- x)). lra.
Qed.

Lemma logistic_cdf_derive s x : 0 < s -> is_derive (logistic_cdf s) x (logistic_pdf s x).
Proof.
  intros Hs. rewrite logistic_pdf_general by exact Hs. unfold logistic_cdf.
  assert (Hp : 0 < exp (- x * / s)) by apply exp_pos.
  auto_derive.
  - lra.
  - unfold Rdiv. field. split; lra.
Qed.

Lemma logistic_cdf_icdf s u : 0 < s -> 0 < u < 1 -> logistic_cdf s (logistic_icdf s u) = u.
Proof.
  intros Hs Hu. unfold logistic_cdf, logistic_icdf.
  replace (- (s * ln (u / (1 - u))) / s) with (- ln (u / (1 - u))) by (field; lra).
  rewrite exp_Ropp, exp_ln; [field; lra|]. apply Rdiv_lt_0_compat; lra.
Qed.

Lemma logistic_cdf_increasing s x y : 0 < s -> x < y -> logistic_cdf s x < logistic_cdf s y.
Proof.
  intros Hs Hxy. unfold logistic_cdf.
  assert (H : exp (- y / s) < exp (- x / s)).
  { apply exp_increasing. unfold Rdiv. apply Rmult_lt_compat_r; [apply Rinv_0_lt_compat; lra|lra]. }
  pose proof (exp_pos (- y / s)). pose proof (exp_pos (- x / s)).
  unfold Rdiv. rewrite !Rmult_1_l. apply Rinv_lt_contravar; [nra|lra].
Qed.

Lemma logistic_pdf_even s x : 0 < s -> logistic_pdf s (- x) = logistic_pdf s x.
Proof.
  intros Hs. rewrite !logistic_pdf_general by exact Hs.
  replace (- - x / s) with (x / s) by (field; lra).
  replace (- x / s) with (- (x / s)) by (field; lra).
  rewrite exp_Ropp. pose proof (exp_pos (x / s)). field. split; lra.
Qed.

Lemma logistic_plumbing scale shape : 0 < scale ->
  radial_distance KLogistic scale shape = Ok (DrawIcdf (StdUniformReal 0 1) false, true) /\
  (forall x, is_derive (logistic_cdf scale) x (logistic_pdf scale x)) /\
  (forall u, 0 < u < 1 -> logistic_cdf scale (logistic_icdf scale u) = u) /\
  inverse_transform (logistic_cdf scale) (logistic_icdf scale) /\
  (forall x, logistic_pdf scale (- x) = logistic_pdf scale x).
Proof.
  intros Hs. split; [reflexivity|]. split; [intros x; apply logistic_cdf_derive; exact Hs|].
  split; [intros u Hu; apply logistic_cdf_icdf; assumption|]. split.
  - apply inverse_transform_of_inverse.
    + intros x y; apply logistic_cdf_increasing; exact Hs.
    + intros u Hu; apply logistic_cdf_icdf; assumption.
  - intros x; apply logistic_pdf_even; exact Hs.
Qed.

(* hyperbolic secant *)
Lemma hyperbolic_secant_pdf_general s x : 0 < s ->
  hyperbolic_secant_pdf s x = 1 / (2 * s) * (1 / cosh (PI * x / (2 * s))).
Proof.
  intros Hs. unfold hyperbolic_secant_pdf. destruct (Rb_eq s 1) eqn:E; [|reflexivity].
  apply Rb_eq_true in E. subst s.
  replace (2 * 1) with 2 by ring. reflexivity.
Qed.

Lemma hyperbolic_secant_icdf_general s u : 0 < s ->
  hyperbolic_secant_icdf s u = 2 * s / PI * ln (tan (PI * u / 2)).
Proof.
  intros Hs. pose proof PI_RGT_0. unfold hyperbolic_secant_icdf. destruct (Rb_eq s 1) eqn:E.
  - apply Rb_eq_true in E. subst s.
    replace (PI / 2 * u) with (PI * u / 2) by field. field. lra.
  - replace (u * PI / 2) with (PI * u / 2) by field. field. lra.
Qed.

Lemma hyperbolic_secant_cdf_derive s x : 0 < s ->
  is_derive (hyperbolic_secant_cdf s) x (hyperbolic_secant_pdf s x).
Proof.
  intros Hs. rewrite hyperbolic_secant_pdf_general by exact Hs. unfold hyperbolic_secant_cdf.
  pose proof PI_RGT_0 as Hpi.
  auto_derive; [exact I|].
  unfold cosh. replace (PI * x / (2 * s)) with (PI * x * / (2 * s)) by reflexivity.
  rewrite exp_Ropp. pose proof (exp_pos (PI * x * / (2 * s))) as He.
  set (E := exp (PI * x * / (2 * s))) in *.
  field. repeat split; try lra; nra.
Qed.

Lemma tan_pos_quadrant y : 0 < y < PI / 2 -> 0 < tan y.
Proof. intros H. apply tan_gt_0; lra. Qed.

Lemma hyperbolic_secant_cdf_icdf s u : 0 < s -> 0 < u < 1 ->
  hyperbolic_secant_cdf s (hyperbolic_secant_icdf s u) = u.
Proof.
  intros Hs Hu. pose proof PI_RGT_0 as Hpi.
  rewrite hyperbolic_secant_icdf_general by exact Hs. unfold hyperbolic_secant_cdf.
  assert (Hq : 0 < PI * u / 2 < PI / 2) by (split; nra).
  replace (PI * (2 * s / PI * ln (tan (PI * u / 2))) / (2 * s)) with (ln (tan (PI * u / 2)))
    by (field; lra).
  rewrite exp_ln by (apply tan_pos_quadrant; exact Hq).
  rewrite atan_tan by lra. field. lra.
Qed.

Lemma hyperbolic_secant_cdf_increasing s x y : 0 < s -> x < y ->
  hyperbolic_secant_cdf s x < hyperbolic_secant_cdf s y.
Proof.
  intros Hs Hxy. pose proof PI_RGT_0 as Hpi. unfold hyperbolic_secant_cdf.
  apply Rmult_lt_compat_l; [apply Rdiv_lt_0_compat; lra|].
  apply atan_increasing. apply exp_increasing.
  unfold Rdiv. apply Rmult_lt_compat_r; [apply Rinv_0_lt_compat; lra|nra].
Qed.

Lemma cosh_even y : cosh (- y) = cosh y.
Proof. unfold cosh. rewrite Ropp_involutive. lra. Qed.

Lemma hyperbolic_secant_pdf_even s x : 0 < s ->
  hyperbolic_secant_pdf s (- x) = hyperbolic_secant_pdf s x.
Proof.
  intros Hs. rewrite !hyperbolic_secant_pdf_general by exact Hs.
  replace (PI * - x / (2 * s)) with (- (PI * x / (2 * s))) by (field; lra).
  rewrite cosh_even. reflexivity.
Qed.

Lemma hyperbolic_secant_plumbing scale shape : 0 < scale ->
  radial_distance KHyperbolicSecant scale shape = Ok (DrawIcdf (StdUniformReal 0 1) false, true) /\
  (forall x, is_derive (hyperbolic_secant_cdf scale) x (hyperbolic_secant_pdf scale x)) /\
  (forall u, 0 < u < 1 -> hyperbolic_secant_cdf scale (hyperbolic_secant_icdf scale u) = u) /\
  inverse_transform (hyperbolic_secant_cdf scale) (hyperbolic_secant_icdf scale) /\
  (forall x, hyperbolic_secant_pdf scale (- x) = hyperbolic_secant_pdf scale x).
Proof.
  intros Hs. split; [reflexivity|]. split; [intros x; apply hyperbolic_secant_cdf_derive; exact Hs|].
  split; [intros u Hu; apply hyperbolic_secant_cdf_icdf; assumption|]. split.
  - apply inverse_transform_of_inverse.
    + intros x y; apply hyperbolic_secant_cdf_increasing; exact Hs.
    + intros u Hu; apply hyperbolic_secant_cdf_icdf; assumption.
  - intros x; apply hyperbolic_secant_pdf_even; exact Hs.
Qed.

(* power law (alpha := first, xmin := second constructor argument) *)
Lemma power_law_cdf_derive a xm x : 0 < xm -> 0 <= x ->
  is_derive (power_law_cdf a xm) x (power_law_pdf a xm x).
Proof.
  intros Hm Hx. unfold power_law_cdf, power_law_pdf, Rpower.
  assert (Hy : 0 < (x + xm) * / xm).
  { apply Rmult_lt_0_compat; [lra|apply Rinv_0_lt_compat; lra]. }
  auto_derive; [exact Hy|].
  replace ((x + xm) / xm) with ((x + xm) * / xm) by reflexivity.
  set (y := (x + xm) * / xm) in *.
  replace ((1 - a) * ln y) with (ln y + - a * ln y) by ring.
  rewrite exp_plus, exp_ln by exact Hy.
  field. split; lra.
Qed.

Lemma power_law_cdf_0 a xm : 0 < xm -> power_law_cdf a xm 0 = 0.
Proof.
  intros Hm. unfold power_law_cdf.
  replace ((0 + xm) / xm) with 1 by (field; lra).
  unfold Rpower. rewrite ln_1, Rmult_0_r, exp_0. ring.
Qed.

(* the quantile that inverts this cdf *)
Lemma power_law_cdf_quantile a xm u : 1 < a -> 0 < xm -> 0 < u < 1 ->
  power_law_cdf a xm (power_law_quantile a xm u) = u.
Proof.
  intros Ha Hm Hu. unfold power_law_cdf, power_law_quantile.
  replace ((xm * (Rpower (1 - u) (1 / (1 - a)) - 1) + xm) / xm)
    with (Rpower (1 - u) (1 / (1 - a))) by (field; lra).
  rewrite Rpower_mult. replace (1 / (1 - a) * (1 - a)) with 1 by (field; lra).
  rewrite Rpower_1 by lra. ring.
Qed.

(* ... which the kernel's icdf is not: alpha = 2, xmin = 1, u = 1/2 gives
   icdf = 2 and cdf 2 = 2/3. *)
Lemma power_law_icdf_refuted :
  exists a xm u, 1 < a /\ 0 < xm /\ 0 < u < 1 /\
    power_law_cdf a xm (power_law_icdf a xm u) <> u.
Proof.
  exists 2, 1, (1 / 2). repeat split; try lra.
  unfold power_law_cdf, power_law_icdf.
  replace (- (2) + 1) with (- (1)) by ring.
  replace (1 / 2 / 1) with (/ 2) by field.
  rewrite Rpower_Ropp, Rpower_1 by lra.
  replace ((/ / 2 + 1) / 1) with 3 by field.
  replace (1 - 2) with (- (1)) by ring.
  rewrite Rpower_Ropp, Rpower_1 by lra. lra.
Qed.

Lemma power_law_plumbing_partial scale shape :
  radial_distance KPowerLaw scale shape = Ok (DrawIcdf (StdUniformReal 0 1) false, true) /\
  (0 < shape -> forall x, 0 <= x -> is_derive (power_law_cdf scale shape) x (power_law_pdf scale shape x)) /\
  (0 < shape -> power_law_cdf scale shape 0 = 0) /\
  (1 < scale -> 0 < shape -> forall u, 0 < u < 1 ->
     power_law_cdf scale shape (power_law_quantile scale shape u) = u).
Proof.
  split; [reflexivity|]. split; [intros H x Hx; apply power_law_cdf_derive; assumption|].
  split; [apply power_law_cdf_0|]. intros; apply power_law_cdf_quantile; assumption.
Qed.

(* exponential power: only the form of the draw is modelled (icdf is a Newton
   iteration on the gamma cdf). *)
Lemma exponential_power_plumbing_partial scale shape :
  radial_distance KExponentialPower scale shape = Ok (DrawIcdf (StdUniformReal 0 1) false, true).
Proof. reflexivity. Qed.

(* kernel types RadialDispersalKernel does not support *)
Lemma radial_unsupported k scale shape :
  In k [KUniform; KDeterministicNeighbor; KNetwork; KNone] ->
  radial_distance k scale shape = Err InvalidArgument.
Proof. simpl. intros [H|[H|[H|[H|[]]]]]; subst k; reflexivity. Qed.

Lemma radial_pdf_defined k G scale shape :
  (exists f, radial_pdf_of k G scale shape = Some f) <->
  (exists dr, radial_distance k scale shape = Ok dr).
Proof.
  destruct k; simpl; split; intros [f H]; try discriminate; eexists; reflexivity.
Qed.
