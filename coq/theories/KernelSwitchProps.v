(* Kernels engine (C13): lemmas about SwitchDispersalKernel, the eligibility of
   the real kernels and the mix built from them.  The kernel types, the flag and
   node_at are finite: every statement is proved for ALL of them by case
   analysis over the translated tables. *)
From Coq Require Import ZArith String List Bool.
From Pops Require Import Err KernelTypesDefs GeneratedKernelTables KernelTableDefs KernelTableProps KernelSwitchDefs.
Import ListNotations.

Lemma kernel_type_eqb_eq a b : kernel_type_eqb a b = true <-> a = b.
Proof. split; [destruct a, b; vm_compute; congruence|intros ->; destruct b; reflexivity]. Qed.

(* ---------- constructor ---------- *)
Lemma switch_stochasticity_stored :
  (forall s, switch_stored_stochasticity s = s) /\ switch_default_stochasticity = true.
Proof. split; [intros []; reflexivity|reflexivity]. Qed.

(* ---------- dispatch ---------- *)
Lemma switch_dispatch_documented ty stoch : switch_target ty stoch = switch_target_spec ty stoch.
Proof. destruct ty, stoch; vm_compute; reflexivity. Qed.

Lemma switch_dispatch_cases ty stoch :
  (ty = KUniform -> switch_target ty stoch = CUniform) /\
  (ty = KDeterministicNeighbor -> switch_target ty stoch = CNeighbor) /\
  (ty = KNetwork -> switch_target ty stoch = CNetwork) /\
  (ty <> KUniform -> ty <> KDeterministicNeighbor -> ty <> KNetwork ->
     switch_target ty stoch = if stoch then CRadial else CDeterministic).
Proof.
  rewrite switch_dispatch_documented.
  repeat split; try (intros ->; reflexivity).
  intros H1 H2 H3. destruct ty; try reflexivity; congruence.
Qed.

Lemma switch_network_iff ty stoch : switch_target ty stoch = CNetwork <-> ty = KNetwork.
Proof. rewrite switch_dispatch_documented. destruct ty, stoch; simpl; split; congruence. Qed.

(* ---------- eligibility of the kernel classes ---------- *)
Lemma class_eligibility c node_at : elig_eval (class_eligible c) node_at = class_eligible_spec c node_at.
Proof. destruct c; reflexivity. Qed.

Lemma wrapper_forwards inner : wrapper_eligible inner = inner.
Proof. reflexivity. Qed.

(* ---------- SwitchDispersalKernel::is_cell_eligible ---------- *)
(* consistency with operator(): the eligibility is that of the member kernel
   operator() calls - for every type, flag and node_at *)
Lemma switch_eligible_consistent ty stoch node_at :
  switch_eligible ty stoch node_at = elig_eval (class_eligible (switch_target ty stoch)) node_at.
Proof. destruct ty, stoch, node_at; vm_compute; reflexivity. Qed.

Lemma switch_eligible_documented ty stoch node_at :
  switch_eligible ty stoch node_at =
  match switch_target ty stoch with CNetwork => node_at | _ => true end.
Proof. destruct ty, stoch, node_at; vm_compute; reflexivity. Qed.

Lemma switch_eligible_iff ty stoch node_at :
  switch_eligible ty stoch node_at = true <-> (ty = KNetwork -> node_at = true).
Proof.
  destruct ty, stoch, node_at; vm_compute; split; try congruence; intros H;
    try reflexivity; try (apply H; reflexivity); try (intros E; discriminate E).
Qed.

(* the member kernel operator() calls never throws for lack of a node at an
   eligible cell *)
Lemma switch_eligible_call_defined ty stoch node_at :
  switch_eligible ty stoch node_at = true -> class_call_throws (switch_target ty stoch) node_at = false.
Proof. destruct ty, stoch, node_at; vm_compute; congruence. Qed.

(* ---------- supports_kernel ---------- *)
Lemma class_supports_documented c ty :
  class_supports c ty = kernel_type_in ty (class_supports_spec c).
Proof. destruct c, ty; vm_compute; reflexivity. Qed.

Lemma switch_supports_documented ty :
  switch_supports ty = kernel_type_in ty (KUniform :: KDeterministicNeighbor :: radial_kernel_types).
Proof. destruct ty; vm_compute; reflexivity. Qed.

(* as the code is: the switch kernel dispatches KNetwork but does not list it *)
Lemma switch_supports_network : switch_supports KNetwork = false /\ switch_target KNetwork true = CNetwork.
Proof. split; vm_compute; reflexivity. Qed.

(* ---------- factory-built kernels ---------- *)
Lemma factory_eligibility k stoch node_at :
  factory_natural_eligible k stoch node_at = true /\
  factory_anthropogenic_eligible k stoch node_at =
    match factory_anthropogenic k stoch with CNetwork => node_at | _ => true end /\
  (factory_anthropogenic_eligible k stoch node_at = true <-> (k = KNetwork -> node_at = true)).
Proof.
  destruct k, stoch, node_at; vm_compute; repeat split; try congruence; intros H;
    try reflexivity; try (apply H; reflexivity); try (intros E; discriminate E).
Qed.

(* both construction routes: the hand-built SwitchDispersalKernel and the kernel
   create_anthro_kernel builds choose the same class and are eligible at the
   same cells *)
Lemma routes_agree ty stoch node_at :
  switch_target ty stoch = factory_anthropogenic ty stoch /\
  switch_eligible ty stoch node_at = factory_anthropogenic_eligible ty stoch node_at.
Proof. destruct ty, stoch, node_at; vm_compute; split; reflexivity. Qed.

(* create_dynamic_kernel: arguments in the order of the mix constructor's
   parameters; the anthropogenic kernel exists whenever it is enabled; the mix
   asks it for eligibility only when enabled, so a kernel left out is never
   dereferenced. *)
Lemma dynamic_kernel_arguments :
  dynamic_kernel_args = dynamic_kernel_args_spec /\
  dynamic_kernel_anthro_built true = true /\
  (forall use, mix_queries_eligibility use = use) /\
  (forall use, dynamic_mix_null_dereference use = false).
Proof. repeat split; try reflexivity; intros []; reflexivity. Qed.

(* ---------- the mix built from real kernels ---------- *)
Ltac finite_mix :=
  vm_compute; repeat split; intros;
  repeat match goal with
  | H : _ /\ _ |- _ => destruct H
  | H : _ \/ _ |- _ => destruct H
  end;
  try congruence; try reflexivity; auto;
  try (left; congruence); try (right; left; split; congruence); try (right; right; congruence);
  try match goal with H : ?a = ?a -> _ |- _ => specialize (H eq_refl); congruence end.

Lemma mix_switch_decision use ty stoch node_at bern :
  (mix_switch_choice use ty stoch node_at bern = MixAnthropogenic <->
     use = true /\ (ty = KNetwork -> node_at = true) /\ bern = false) /\
  (mix_switch_choice use ty stoch node_at bern = MixNatural <->
     use = false \/ (ty = KNetwork /\ node_at = false) \/ bern = true) /\
  (mix_switch_draws use ty stoch node_at = true <-> use = true /\ (ty = KNetwork -> node_at = true)).
Proof. destruct use, ty, stoch, node_at, bern; finite_mix. Qed.

Lemma mix_factory_decision use ty stoch node_at bern :
  (mix_factory_choice use ty stoch node_at bern = MixAnthropogenic <->
     use = true /\ (ty = KNetwork -> node_at = true) /\ bern = false) /\
  (mix_factory_choice use ty stoch node_at bern = MixNatural <->
     use = false \/ (ty = KNetwork /\ node_at = false) \/ bern = true) /\
  (mix_factory_draws use ty stoch node_at = true <-> use = true /\ (ty = KNetwork -> node_at = true)).
Proof. destruct use, ty, stoch, node_at, bern; finite_mix. Qed.

(* the mix never calls a kernel at a cell where the call would throw for lack
   of a network node *)
Lemma mix_never_calls_ineligible use ty stoch node_at bern :
  (mix_switch_choice use ty stoch node_at bern = MixAnthropogenic ->
     class_call_throws (switch_target ty stoch) node_at = false) /\
  (mix_factory_choice use ty stoch node_at bern = MixAnthropogenic ->
     class_call_throws (factory_anthropogenic ty stoch) node_at = false).
Proof. destruct use, ty, stoch, node_at, bern; vm_compute; split; congruence. Qed.

(* ---------- the statements of Properties_C13.v, assembled ---------- *)
Lemma switch_dispatch_full ty stoch :
  switch_target ty stoch = switch_target_spec ty stoch /\
  (ty = KUniform -> switch_target ty stoch = CUniform) /\
  (ty = KDeterministicNeighbor -> switch_target ty stoch = CNeighbor) /\
  (ty = KNetwork -> switch_target ty stoch = CNetwork) /\
  (ty <> KUniform -> ty <> KDeterministicNeighbor -> ty <> KNetwork ->
     switch_target ty stoch = if stoch then CRadial else CDeterministic).
Proof. split; [apply switch_dispatch_documented|apply switch_dispatch_cases]. Qed.

Lemma kernel_eligibility c node_at :
  elig_eval (class_eligible c) node_at = (match c with CNetwork => node_at | _ => true end) /\
  wrapper_eligible (elig_eval (class_eligible c) node_at) = elig_eval (class_eligible c) node_at.
Proof. split; [rewrite class_eligibility; destruct c; reflexivity|apply wrapper_forwards]. Qed.

Lemma switch_eligible_full ty stoch node_at :
  switch_eligible ty stoch node_at = elig_eval (class_eligible (switch_target ty stoch)) node_at /\
  switch_eligible ty stoch node_at = (match switch_target ty stoch with CNetwork => node_at | _ => true end) /\
  (switch_eligible ty stoch node_at = true <-> (ty = KNetwork -> node_at = true)) /\
  (switch_eligible ty stoch node_at = true -> class_call_throws (switch_target ty stoch) node_at = false).
Proof.
  split; [apply switch_eligible_consistent|].
  split; [apply switch_eligible_documented|].
  split; [apply switch_eligible_iff|apply switch_eligible_call_defined].
Qed.

Lemma switch_supports_full ty :
  (forall c, class_supports c ty = kernel_type_in ty (class_supports_spec c)) /\
  switch_supports ty = kernel_type_in ty (KUniform :: KDeterministicNeighbor :: radial_kernel_types) /\
  switch_supports KNetwork = false.
Proof.
  split; [intros c; apply class_supports_documented|].
  split; [apply switch_supports_documented|apply switch_supports_network].
Qed.
