(* Model of include/pops/raster.hpp (class template pops::Raster<Number, Index>).
   Definitions only; proofs are in RasterProps.v.

   Part 1 (raster algebra): a raster is (rows, cols, element type, row-major
   list of cells).  A cell of a Raster<int> is [NI z] (C++ int, unbounded here:
   overflow is outside the domain), a cell of a Raster<double> is [ND q] (the
   real-number semantics of binary64; the correspondence check uses dyadic
   values for which binary64 arithmetic is exact).  Scalars are [num] as well.
   Every operator is written as the code computes it: the loops run over
   cols*rows cells of the underlying buffers with bounds-checked reads
   ([UB_OutOfBounds] where the C++ would read past a buffer), the conversions
   are the C++ ones (usual arithmetic conversions, truncation on double -> int,
   and the explicit static_cast<int>(std::floor(value)) of the compound
   operators of integral rasters with a floating scalar).

   The model describes the REPAIRED code for three small defects (see
   notes/findings/C19_*.fix.diff): operator==/!= (loop bounds and shape test),
   pow/sqrt (work on a copy) and the compound raster-raster operators (shape
   test).  The behaviour of the code before these repairs is kept as
   [*_legacy] definitions so that the defects are theorems as well.

   Part 2 (ownership): a heap of buffers and a pool of raster objects with the
   constructors, assignments and destructor of raster.hpp as a state machine. *)
From Coq Require Import ZArith QArith Qround List Bool.
From Pops Require Import Err.
Import ListNotations.
Local Open Scope Z_scope.

(* ------------------------------------------------------------------------- *)
(* Numbers                                                                   *)
(* ------------------------------------------------------------------------- *)

Inductive ety : Set := TInt | TDbl.
Inductive num : Set := NI (z : Z) | ND (q : Q).
Inductive binop : Set := Add | Sub | Mul | Div.

Definition ty_of (n : num) : ety := match n with NI _ => TInt | ND _ => TDbl end.
Definition to_q (n : num) : Q := match n with NI z => inject_Z z | ND q => q end.
Definition ety_eqb (a b : ety) : bool :=
  match a, b with TInt, TInt => true | TDbl, TDbl => true | _, _ => false end.

(* int op int: C++ integer arithmetic, division truncates toward zero *)
Definition zop (o : binop) (a b : Z) : Z :=
  match o with Add => a + b | Sub => a - b | Mul => a * b | Div => Z.quot a b end.
Definition qop (o : binop) (a b : Q) : Q :=
  match o with Add => Qplus a b | Sub => Qminus a b | Mul => Qmult a b | Div => Qdiv a b end.

(* a op b under the usual arithmetic conversions: int only if both are int *)
Definition arith (o : binop) (a b : num) : num :=
  match a, b with
  | NI x, NI y => NI (zop o x y)
  | _, _ => ND (qop o (to_q a) (to_q b))
  end.

(* truncation toward zero, the C++ conversion double -> int *)
Definition qtrunc (q : Q) : Z := if Qnum q <? 0 then Qceiling q else Qfloor q.

(* implicit conversion of a computed value to the element type it is stored
   into: double -> int truncates toward zero *)
Definition conv (t : ety) (n : num) : num :=
  match t, n with
  | TInt, ND q => NI (qtrunc q)
  | TDbl, NI z => ND (inject_Z z)
  | _, _ => n
  end.

(* std::common_type of the two element types *)
Definition common_ty (a b : ety) : ety :=
  match a, b with TInt, TInt => TInt | _, _ => TDbl end.

(* a != b on cells is [negb (num_eqb a b)] *)
Definition num_eqb (a b : num) : bool :=
  match a, b with
  | NI x, NI y => x =? y
  | _, _ => Qeq_bool (to_q a) (to_q b)
  end.

(* --- what each operator computes for one cell ---------------------------- *)

(* operator+(const Raster&, OtherNumber) etc.: [a op value] in the common type,
   converted to Number when std::transform stores it *)
Definition cell_rs (o : binop) (t : ety) (x s : num) : num := conv t (arith o x s).

(* operator+(OtherNumber, const Raster&) and operator* call raster op value;
   operator- and operator/ compute value op a *)
Definition cell_sr (o : binop) (t : ety) (s x : num) : num :=
  match o with
  | Add | Mul => conv t (arith o x s)
  | Sub | Div => conv t (arith o s x)
  end.

(* operator+=(OtherNumber) etc.: [a op= value]; the overloads for an integral
   Number and a floating OtherNumber compute
   a op= static_cast<int>(std::floor(value)) *)
Definition cell_rs_asg (o : binop) (t : ety) (x s : num) : num :=
  match t, s with
  | TInt, ND q => arith o x (NI (Qfloor q))
  | _, _ => conv t (arith o x s)
  end.

(* operator+(const Raster<L>&, const Raster<R>&): a op b in the common type *)
Definition cell_rr (o : binop) (x y : num) : num := arith o x y.

(* operator+=(const Raster<OtherNumber>&): a op= b *)
Definition cell_rr_asg (o : binop) (t : ety) (x y : num) : num := conv t (arith o x y).

(* The compound raster-raster operators exist only when Number is floating or
   both element types are the same (enable_if); the other combination does not
   compile and is outside the model's domain. *)
Definition rr_asg_allowed (ta tb : ety) : bool :=
  match ta, tb with TInt, TDbl => false | _, _ => true end.

(* a = std::pow(a, value) for an integer-valued exponent (other exponents are
   transcendental and not modelled) *)
Definition cell_pow (t : ety) (e : Z) (x : num) : num := conv t (ND (Qpower (to_q x) e)).

(* a = std::sqrt(a): exact when numerator and denominator of the reduced
   fraction are perfect squares; for an int cell a >= 0 the stored value is
   trunc(sqrt a) = Z.sqrt a in every case.  Other values are not modelled. *)
Definition qsqrt (q : Q) : Q := let r := Qred q in Z.sqrt (Qnum r) # Pos.sqrt (Qden r).
Definition cell_sqrt (t : ety) (x : num) : num := conv t (ND (qsqrt (to_q x))).

(* ------------------------------------------------------------------------- *)
(* Rasters and the loops of raster.hpp                                        *)
(* ------------------------------------------------------------------------- *)

Record raster : Set := mkr { rrows : Z; rcols : Z; rty : ety; rcells : list num }.

(* cols_ * rows_, the trip count of every arithmetic loop *)
Definition ncells (r : raster) : nat := Z.to_nat (rcols r * rrows r).

(* well-formed: the buffer holds exactly rows*cols cells of the element type *)
Definition wf (r : raster) : Prop :=
  0 <= rrows r /\ 0 <= rcols r /\ length (rcells r) = ncells r /\
  Forall (fun x => ty_of x = rty r) (rcells r).

(* std::for_each / std::transform over [data, data + n) *)
Fixpoint loop1 (f : num -> num) (n : nat) (xs : list num) : result (list num) :=
  match n with
  | O => Ok []
  | S n' =>
    match xs with
    | [] => Err UB_OutOfBounds
    | x :: xs' => do r <- loop1 f n' xs'; Ok (f x :: r)
    end
  end.

(* for_each_zip / binary std::transform: n steps over the first range, the
   second range is read in step with it *)
Fixpoint loop2 (f : num -> num -> num) (n : nat) (xs ys : list num) : result (list num) :=
  match n with
  | O => Ok []
  | S n' =>
    match xs, ys with
    | x :: xs', y :: ys' => do r <- loop2 f n' xs' ys'; Ok (f x y :: r)
    | _, _ => Err UB_OutOfBounds
    end
  end.

(* lhs.cols() != rhs.cols() || lhs.rows() != rhs.rows() is the negation *)
Definition same_shape (a b : raster) : bool :=
  (rcols a =? rcols b) && (rrows a =? rrows b).

(* Every operation returns its result together with the operands as they are
   afterwards, so that "operands are left unchanged" is a statement about the
   model and not an artefact of writing it functionally. *)

(* c = a op b: (c, a afterwards, b afterwards) *)
Definition rr_bin (o : binop) (a b : raster) : result (raster * raster * raster) :=
  if same_shape a b then
    do cs <- loop2 (cell_rr o) (ncells a) (rcells a) (rcells b);
    Ok (mkr (rrows a) (rcols a) (common_ty (rty a) (rty b)) cs, a, b)
  else Err InvalidArgument.

(* c = a op s: (c, a afterwards) *)
Definition rs_bin (o : binop) (a : raster) (s : num) : result (raster * raster) :=
  do cs <- loop1 (fun x => cell_rs o (rty a) x s) (ncells a) (rcells a);
  Ok (mkr (rrows a) (rcols a) (rty a) cs, a).

(* c = s op a *)
Definition sr_bin (o : binop) (s : num) (a : raster) : result (raster * raster) :=
  do cs <- loop1 (fun x => cell_sr o (rty a) s x) (ncells a) (rcells a);
  Ok (mkr (rrows a) (rcols a) (rty a) cs, a).

(* a op= s: a afterwards *)
Definition rs_asg (o : binop) (a : raster) (s : num) : result raster :=
  do cs <- loop1 (fun x => cell_rs_asg o (rty a) x s) (ncells a) (rcells a);
  Ok (mkr (rrows a) (rcols a) (rty a) cs).

(* a op= b: (a afterwards, b afterwards).  Repaired code: shapes are compared
   first (notes/findings/C19_compound_shape_unchecked.fix.diff). *)
Definition rr_asg_loop (o : binop) (a b : raster) : result (raster * raster) :=
  do cs <- loop2 (cell_rr_asg o (rty a)) (ncells a) (rcells a) (rcells b);
  Ok (mkr (rrows a) (rcols a) (rty a) cs, b).
Definition rr_asg (o : binop) (a b : raster) : result (raster * raster) :=
  if same_shape a b then rr_asg_loop o a b else Err InvalidArgument.
(* before the repair: no test at all *)
Definition rr_asg_legacy (o : binop) (a b : raster) : result (raster * raster) :=
  rr_asg_loop o a b.

(* Raster out(image): copy constructor, std::copy over n cells *)
Definition rcopy (a : raster) : result raster :=
  do cs <- loop1 (fun x => x) (ncells a) (rcells a);
  Ok (mkr (rrows a) (rcols a) (rty a) cs).

(* apply f to every cell in place (for_each with a mutating functor) *)
Definition rmap (f : num -> num) (a : raster) : result raster :=
  do cs <- loop1 f (ncells a) (rcells a);
  Ok (mkr (rrows a) (rcols a) (rty a) cs).

(* pow(image, value), sqrt(image): (result, image afterwards).  Repaired code
   (notes/findings/C19_pow_sqrt_overwrite_operand.fix.diff): copy, then modify
   the copy. *)
Definition rpow (a : raster) (e : Z) : result (raster * raster) :=
  do c <- rcopy a; do c' <- rmap (cell_pow (rty a) e) c; Ok (c', a).
Definition rsqrt (a : raster) : result (raster * raster) :=
  do c <- rcopy a; do c' <- rmap (cell_sqrt (rty a)) c; Ok (c', a).
(* before the repair: image.for_each(...) writes through the const object's
   data pointer, then `return image` copies the overwritten raster *)
Definition rpow_legacy (a : raster) (e : Z) : result (raster * raster) :=
  do a' <- rmap (cell_pow (rty a) e) a; do c <- rcopy a'; Ok (c, a').
Definition rsqrt_legacy (a : raster) : result (raster * raster) :=
  do a' <- rmap (cell_sqrt (rty a)) a; do c <- rcopy a'; Ok (c, a').

(* --- operator== and operator!= ------------------------------------------- *)

(* data_[k] *)
Definition getc (l : list num) (k : Z) : result num :=
  if k <? 0 then Err UB_OutOfBounds
  else match nth_error l (Z.to_nat k) with Some x => Ok x | None => Err UB_OutOfBounds end.

(* for (j = ...; j < inner; j++) if (this->data_[base + j] != other.data_[base + j]) return ...;
   [todo] is the number of iterations left.  Ok true = a difference was found. *)
Fixpoint diff_inner (xs ys : list num) (base j : Z) (todo : nat) : result bool :=
  match todo with
  | O => Ok false
  | S t =>
    do a <- getc xs (base + j);
    do b <- getc ys (base + j);
    if num_eqb a b then diff_inner xs ys base (j + 1) t else Ok true
  end.

(* for (i = ...; i < outer; i++) { inner loop over data_[i * stride + j] } *)
Fixpoint diff_outer (xs ys : list num) (stride : Z) (inner : nat) (i : Z) (todo : nat) : result bool :=
  match todo with
  | O => Ok false
  | S t =>
    do d <- diff_inner xs ys (i * stride) 0 inner;
    if d then Ok true else diff_outer xs ys stride inner (i + 1) t
  end.

Definition first_difference (outer inner stride : Z) (xs ys : list num) : result bool :=
  diff_outer xs ys stride (Z.to_nat inner) 0 (Z.to_nat outer).

(* Repaired code (notes/findings/C19_equality_loop_bounds.fix.diff): shapes are
   compared first; i < rows_, j < cols_, index i * cols_ + j. *)
Definition raster_eq (a b : raster) : result bool :=
  if (rrows a =? rrows b) && (rcols a =? rcols b) then
    do d <- first_difference (rrows a) (rcols a) (rcols a) (rcells a) (rcells b); Ok (negb d)
  else Ok false.
Definition raster_ne (a b : raster) : result bool :=
  if (rrows a =? rrows b) && (rcols a =? rcols b) then
    first_difference (rrows a) (rcols a) (rcols a) (rcells a) (rcells b)
  else Ok true.
(* before the repair: i < cols_, j < cols_, no shape test *)
Definition raster_eq_legacy (a b : raster) : result bool :=
  do d <- first_difference (rcols a) (rcols a) (rcols a) (rcells a) (rcells b); Ok (negb d).
Definition raster_ne_legacy (a b : raster) : result bool :=
  first_difference (rcols a) (rcols a) (rcols a) (rcells a) (rcells b).

(* Raster(std::initializer_list<std::initializer_list<Number>>): rows = l.size(),
   cols = l.begin()->size(), cells written at data_[cols_ * i + j].  An empty
   outer list (dereferences begin() of an empty list) and ragged lists (write
   past a row, or leave cells uninitialised) are outside the domain. *)
Definition rectangular (rows : list (list num)) : bool :=
  match rows with
  | [] => false
  | r0 :: _ => forallb (fun r => (length r =? length r0)%nat) rows
  end.
Definition from_rows (t : ety) (rows : list (list num)) : result raster :=
  if rectangular rows then
    Ok (mkr (Z.of_nat (length rows)) (Z.of_nat (length (hd [] rows))) t (concat rows))
  else Err UB_OutOfBounds.

(* Raster(rows, cols, value) *)
Definition filled (t : ety) (r c : Z) (x : num) : raster :=
  mkr r c t (repeat x (Z.to_nat (c * r))).

(* ------------------------------------------------------------------------- *)
(* Ownership state machine                                                   *)
(* ------------------------------------------------------------------------- *)

(* What can go wrong with memory.  The first three are errors of the raster
   class itself if they ever happen; the others are misuse by the caller. *)
Inductive merr : Set :=
| DoubleFree | FreeOfExternal | UseAfterFree
| NullDeref | IndexOutOfBounds | NoSuchObject | SlotOccupied | NoSuchArray | BadShape.

Inductive mres (A : Type) : Type :=
| MOk : A -> mres A
| MErr : merr -> mres A.
Arguments MOk {A} _.
Arguments MErr {A} _.
Definition mbind {A B} (r : mres A) (f : A -> mres B) : mres B :=
  match r with MOk a => f a | MErr e => MErr e end.
Notation "'mdo' x <- r ; k" := (mbind r (fun x => k))
  (at level 200, x name, r at level 100, k at level 200).

(* A buffer: allocated by new[] inside the class (b_ext = false) or memory of
   the caller (b_ext = true).  Freed buffers stay in the heap list with
   b_live = false; identifiers (positions) are never reused. *)
Record buffer : Set := mkbuf { b_live : bool; b_ext : bool; b_cells : list num }.
(* A Raster object: rows_, cols_, data_ (None = nullptr), owns_ *)
Record robj : Set := mkobj { o_rows : Z; o_cols : Z; o_data : option nat; o_owns : bool }.
(* slots: the pool of raster variables (None = no object lives there);
   exts: buffer identifiers of the caller's arrays, in creation order *)
Record state : Set := mkst { heap : list buffer; slots : list (option robj); exts : list nat }.

Inductive op : Set :=
| ODefault (v : nat)                               (* Raster() *)
| OSized (v : nat) (r c : Z) (init : list num)     (* Raster(r, c), then every cell written *)
| OFillNew (v : nat) (r c : Z) (x : num)           (* Raster(r, c, x) *)
| OList (v : nat) (rows : list (list num))         (* Raster({{..},{..}}) *)
| OLike (v w : nat) (x : num)                      (* Raster(other, x) *)
| OExt (cells : list num)                          (* the caller allocates an array *)
| OWrap (v e : nat) (r c : Z)                      (* Raster(data, r, c) on array e *)
| OCopy (v w : nat)                                (* Raster v(w) *)
| OMove (v w : nat)                                (* Raster v(std::move(w)) *)
| OCopyAssign (v w : nat)                          (* v = w *)
| OMoveAssign (v w : nat)                          (* v = std::move(w) *)
| ODestroy (v : nat)                               (* ~Raster() *)
| OWrite (v : nat) (i j : Z) (x : num)             (* v(i, j) = x *)
| OExtWrite (e : nat) (k : nat) (x : num).         (* array_e[k] = x by the caller *)

Fixpoint upd {A} (l : list A) (k : nat) (x : A) : list A :=
  match l, k with
  | [], _ => []
  | _ :: t, O => x :: t
  | h :: t, S k' => h :: upd t k' x
  end.

Definition empty_slot (st : state) (v : nat) : mres unit :=
  match nth_error (slots st) v with
  | Some None => MOk tt
  | Some (Some _) => MErr SlotOccupied
  | None => MErr NoSuchObject
  end.
Definition get_obj (st : state) (v : nat) : mres robj :=
  match nth_error (slots st) v with
  | Some (Some o) => MOk o
  | _ => MErr NoSuchObject
  end.
Definition set_slot (st : state) (v : nat) (x : option robj) : state :=
  mkst (heap st) (upd (slots st) v x) (exts st).
Definition set_heap (st : state) (h : list buffer) : state := mkst h (slots st) (exts st).

(* new Number[n]: a fresh identifier *)
Definition alloc (st : state) (ext : bool) (cells : list num) : nat * state :=
  (length (heap st), set_heap st (heap st ++ [mkbuf true ext cells])).

(* delete[] p *)
Definition free (st : state) (b : nat) : mres state :=
  match nth_error (heap st) b with
  | None => MErr UseAfterFree
  | Some bf =>
    if b_ext bf then MErr FreeOfExternal
    else if b_live bf then MOk (set_heap st (upd (heap st) b (mkbuf false false (b_cells bf))))
    else MErr DoubleFree
  end.

(* if (data_ && owns_) delete[] data_; *)
Definition release (st : state) (o : robj) : mres state :=
  match o_data o with
  | Some b => if o_owns o then free st b else MOk st
  | None => MOk st
  end.

Definition count (o : robj) : nat := Z.to_nat (o_cols o * o_rows o).

(* the cells [data_, data_ + cols_*rows_) as std::copy reads them *)
Definition read (st : state) (o : robj) : mres (list num) :=
  match o_data o with
  | None => if (count o =? 0)%nat then MOk [] else MErr NullDeref
  | Some b =>
    match nth_error (heap st) b with
    | None => MErr UseAfterFree
    | Some bf =>
      if b_live bf then
        if (count o <=? length (b_cells bf))%nat then MOk (firstn (count o) (b_cells bf))
        else MErr IndexOutOfBounds
      else MErr UseAfterFree
    end
  end.

Definition shape_ok (r c : Z) : bool := (0 <=? r) && (0 <=? c).

(* owns_(true), data_ = new Number[cols_ * rows_] holding [cells] *)
Definition construct (st : state) (v : nat) (r c : Z) (cells : list num) : state :=
  let '(b, st1) := alloc st false cells in
  set_slot st1 v (Some (mkobj r c (Some b) true)).

Definition write_buf (st : state) (b : nat) (k : Z) (x : num) : mres state :=
  match nth_error (heap st) b with
  | None => MErr UseAfterFree
  | Some bf =>
    if b_live bf then
      if (0 <=? k) && (k <? Z.of_nat (length (b_cells bf))) then
        MOk (set_heap st (upd (heap st) b (mkbuf true (b_ext bf) (upd (b_cells bf) (Z.to_nat k) x))))
      else MErr IndexOutOfBounds
    else MErr UseAfterFree
  end.

Definition step (st : state) (p : op) : mres state :=
  match p with
  | ODefault v =>
    mdo _ <- empty_slot st v;
    MOk (set_slot st v (Some (mkobj 0 0 None true)))
  | OSized v r c init =>
    mdo _ <- empty_slot st v;
    if shape_ok r c && (length init =? Z.to_nat (c * r))%nat
    then MOk (construct st v r c init) else MErr BadShape
  | OFillNew v r c x =>
    mdo _ <- empty_slot st v;
    if shape_ok r c then MOk (construct st v r c (repeat x (Z.to_nat (c * r)))) else MErr BadShape
  | OList v rows =>
    mdo _ <- empty_slot st v;
    if rectangular rows
    then MOk (construct st v (Z.of_nat (length rows)) (Z.of_nat (length (hd [] rows))) (concat rows))
    else MErr BadShape
  | OLike v w x =>
    (* cols_/rows_ of the other object, its data is not read *)
    mdo _ <- empty_slot st v;
    mdo o <- get_obj st w;
    MOk (construct st v (o_rows o) (o_cols o) (repeat x (count o)))
  | OExt cells =>
    let '(b, st1) := alloc st true cells in
    MOk (mkst (heap st1) (slots st1) (exts st1 ++ [b]))
  | OWrap v e r c =>
    (* rows_(rows), cols_(cols), data_(data), owns_(false): the constructor
       checks nothing.  Negative dimensions and pointers that are not one of
       the caller's arrays are outside the domain (BadShape / NoSuchArray);
       a shape larger than the array is accepted here as in the C++ and shows
       up as IndexOutOfBounds when cells beyond the array are accessed. *)
    mdo _ <- empty_slot st v;
    match nth_error (exts st) e with
    | None => MErr NoSuchArray
    | Some b =>
      if shape_ok r c then MOk (set_slot st v (Some (mkobj r c (Some b) false))) else MErr BadShape
    end
  | OCopy v w =>
    (* owns_(true); new buffer; std::copy of cols_*rows_ cells *)
    mdo _ <- empty_slot st v;
    mdo o <- get_obj st w;
    mdo cs <- read st o;
    MOk (construct st v (o_rows o) (o_cols o) cs)
  | OMove v w =>
    (* owns_(other.owns_), data_ = other.data_, other.data_ = nullptr;
       the source keeps its rows_, cols_ and owns_ *)
    mdo _ <- empty_slot st v;
    mdo o <- get_obj st w;
    MOk (set_slot
           (set_slot st v (Some (mkobj (o_rows o) (o_cols o) (o_data o) (o_owns o))))
           w (Some (mkobj (o_rows o) (o_cols o) None (o_owns o))))
  | OCopyAssign v w =>
    (* if (this != &other) { if (data_ && owns_) delete[] data_; cols_, rows_;
       data_ = new ...; std::copy }  -- owns_ is left as it was *)
    mdo ov <- get_obj st v;
    mdo ow <- get_obj st w;
    if (v =? w)%nat then MOk st else
    mdo st1 <- release st ov;
    mdo cs <- read st1 ow;
    let '(b, st2) := alloc st1 false cs in
    MOk (set_slot st2 v (Some (mkobj (o_rows ow) (o_cols ow) (Some b) (o_owns ov))))
  | OMoveAssign v w =>
    (* if (this != &other) { if (data_ && owns_) delete[] data_; cols_, rows_,
       data_ = other.data_; owns_ = other.owns_; other.data_ = nullptr } *)
    mdo ov <- get_obj st v;
    mdo ow <- get_obj st w;
    if (v =? w)%nat then MOk st else
    mdo st1 <- release st ov;
    MOk (set_slot
           (set_slot st1 v (Some (mkobj (o_rows ow) (o_cols ow) (o_data ow) (o_owns ow))))
           w (Some (mkobj (o_rows ow) (o_cols ow) None (o_owns ow))))
  | ODestroy v =>
    mdo o <- get_obj st v;
    mdo st1 <- release st o;
    MOk (set_slot st1 v None)
  | OWrite v i j x =>
    (* data_[row * cols_ + col] = x *)
    mdo o <- get_obj st v;
    match o_data o with
    | None => MErr NullDeref
    | Some b => write_buf st b (i * o_cols o + j) x
    end
  | OExtWrite e k x =>
    match nth_error (exts st) e with
    | None => MErr NoSuchArray
    | Some b => write_buf st b (Z.of_nat k) x
    end
  end.

Fixpoint run (st : state) (ops : list op) : mres state :=
  match ops with
  | [] => MOk st
  | p :: t => mdo st1 <- step st p; run st1 t
  end.

Definition init (nslots : nat) : state := mkst [] (repeat None nslots) [].

(* observations used by the correspondence driver and the theorems *)
Definition live_internal (st : state) : nat :=
  length (filter (fun b => b_live b && negb (b_ext b)) (heap st)).
Definition ext_cells (st : state) (e : nat) : option (list num) :=
  match nth_error (exts st) e with
  | None => None
  | Some b => match nth_error (heap st) b with Some bf => Some (b_cells bf) | None => None end
  end.
