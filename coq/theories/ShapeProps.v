(* Cohort-list lengths never change: every action of LandDefs.v keeps the
   lengths of the exposed and mortality cohort lists of every cell of every
   host, for every tape and without any precondition on the arguments. *)
From Coq Require Import ZArith QArith List Bool Lia.
From Pops Require Import Err Rounding RoundingProps CellDefs CellProps MoveProps LandDefs MonadProps LandProps.
Import ListNotations.
Local Open Scope Z_scope.

Definition shape (ne nm : nat) (c : cell) : Prop := length (cE c) = ne /\ length (cM c) = nm.
Definition WS (ne nm : nat) (w : world) : Prop := winv (shape ne nm) w.

(* ---------- per-cell lemmas ---------- *)
Lemma add_last_length l : forall v l', add_last l v = Ok l' -> length l' = length l.
Proof.
  induction l as [|x r IH]; intros v l' H; cbn [add_last] in H; [discriminate|].
  destruct r as [|y r'].
  - injection H as <-. reflexivity.
  - destruct (add_last (y :: r') v) as [r2|] eqn:E; [|discriminate]. cbn [bind] in H.
    injection H as <-. cbn [length]. f_equal. apply (IH _ _ E).
Qed.

Lemma add_disperser_shape ne nm mt c r : shape ne nm c -> add_disperser mt c = Ok r -> shape ne nm (fst r).
Proof.
  intros [He Hm] H. unfold add_disperser in H. destruct (cS c <=? 0).
  - injection H as <-. split; assumption.
  - destruct mt.
    + destruct (add_last (cM c) 1) as [m'|] eqn:E; [|discriminate]. cbn [bind] in H. injection H as <-.
      apply add_last_length in E. split; cbn [fst cE cM]; congruence.
    + destruct (add_last (cE c) 1) as [e'|] eqn:E; [|discriminate]. cbn [bind] in H. injection H as <-.
      apply add_last_length in E. split; cbn [fst cE cM]; congruence.
Qed.

Lemma remove_infected_shape ne nm c count d c' : shape ne nm c -> remove_infected c count d = Ok c' -> shape ne nm c'.
Proof.
  intros [He Hm] H. unfold remove_infected in H.
  destruct (count >? 0); [destruct (valid_draw (cM c) d count); [|discriminate]|];
    injection H as <-; split; cbn [cE cM]; rewrite ?sub_list_length; assumption.
Qed.

Lemma remove_exposed_shape ne nm c count d c' : shape ne nm c -> remove_exposed c count d = Ok c' -> shape ne nm c'.
Proof.
  intros [He Hm] H. unfold remove_exposed in H.
  destruct (count >? 0); [destruct (valid_draw (cE c) d count); [|discriminate]|];
    injection H as <-; split; cbn [cE cM]; rewrite ?sub_list_length; assumption.
Qed.

Lemma pests_from_shape ne nm c count : shape ne nm c -> shape ne nm (fst (pests_from c count)).
Proof. intros H. exact H. Qed.
Lemma pests_to_shape ne nm c count : shape ne nm c -> shape ne nm (fst (pests_to c count)).
Proof. intros H. exact H. Qed.

Lemma reset_total_shape ne nm c : shape ne nm c -> shape ne nm (reset_total c).
Proof. intros H. exact H. Qed.

Lemma completely_remove_shape ne nm c s e i m c' : shape ne nm c -> completely_remove c s e i m = Ok c' -> shape ne nm c'.
Proof.
  intros [He Hm] H. unfold completely_remove in H.
  destruct (negb (Nat.eqb (length e) (length (cE c)))); [discriminate|].
  destruct (i <=? 0).
  - injection H as <-. split; cbn [reset_total cE cM]; rewrite ?sub_list_length; assumption.
  - destruct (negb (Nat.eqb (length (cM c)) (length m))); [discriminate|].
    destruct (negb (all_leb m (cM c))); [discriminate|].
    injection H as <-. split; cbn [reset_total cE cM]; rewrite ?sub_list_length; assumption.
Qed.

Lemma make_resistant_shape ne nm c s e i m c' : shape ne nm c -> make_resistant c s e i m = Ok c' -> shape ne nm c'.
Proof.
  intros [He Hm] H. unfold make_resistant in H.
  destruct (cS c <? s); [discriminate|].
  destruct (negb (Nat.eqb (length e) (length (cE c)))); [discriminate|].
  destruct (negb (Nat.eqb (length (cM c)) (length m))); [discriminate|].
  injection H as <-. split; cbn [cE cM]; rewrite ?sub_list_length; assumption.
Qed.

Lemma remove_resistance_shape ne nm c : shape ne nm c -> shape ne nm (remove_resistance c).
Proof. intros H. exact H. Qed.

Lemma treat_removal_shape ne nm app coef c c' : shape ne nm c -> treat_removal app coef c = Ok c' -> shape ne nm c'.
Proof. unfold treat_removal. apply completely_remove_shape. Qed.
Lemma treat_pesticide_shape ne nm app coef c c' : shape ne nm c -> treat_pesticide app coef c = Ok c' -> shape ne nm c'.
Proof. unfold treat_pesticide. apply make_resistant_shape. Qed.
Lemma treat_pesticide_end_shape ne nm coef c : shape ne nm c -> shape ne nm (treat_pesticide_end coef c).
Proof. intros H. unfold treat_pesticide_end. destruct (qltb 0 coef); exact H. Qed.

Lemma mortality_loop_length rate : forall k index m i th d m' i' th' d',
  mortality_loop k index rate m i th d = Ok (m', i', th', d') -> length m' = length m.
Proof.
  induction k as [|k IH]; intros index m i th d m' i' th' d' H; cbn [mortality_loop] in H.
  - injection H as <- _ _ _. reflexivity.
  - destruct m as [|x r]; [injection H as <- _ _ _; reflexivity|].
    destruct (x >? 0).
    + destruct (_ >? i); [discriminate|]. destruct (_ >? th); [discriminate|].
      match type of H with bind ?e _ = _ => destruct e as [[[[r2 i2] th2] d2]|] eqn:E; [|discriminate] end.
      cbn [bind] in H. injection H as <- _ _ _. cbn [length]. f_equal. eapply IH; eauto.
    + match type of H with bind ?e _ = _ => destruct e as [[[[r2 i2] th2] d2]|] eqn:E; [|discriminate] end.
      cbn [bind] in H. injection H as <- _ _ _. cbn [length]. f_equal. eapply IH; eauto.
Qed.

Lemma apply_mortality_shape ne nm c rate lag c' : shape ne nm c -> apply_mortality c rate lag = Ok c' -> shape ne nm c'.
Proof.
  intros [He Hm] H. unfold apply_mortality in H.
  destruct (Qle_bool rate 0); [injection H as <-; split; assumption|].
  destruct (lag <? 0); [discriminate|].
  match type of H with bind ?e _ = _ => destruct e as [[[[r2 i2] th2] d2]|] eqn:E; [|discriminate] end.
  cbn [bind] in H. injection H as <-. apply mortality_loop_length in E. split; cbn [cE cM]; congruence.
Qed.

Lemma rotate_mortality_shape ne nm c : shape ne nm c -> shape ne nm (rotate_mortality c).
Proof. intros [He Hm]. split; cbn [rotate_mortality cE cM]; [assumption|]. rewrite rotate_left_length. assumption. Qed.

Lemma step_forward_shape ne nm mt latency step c c' : shape ne nm c -> step_forward mt latency step c = Ok c' -> shape ne nm c'.
Proof.
  intros [He Hm] H. unfold step_forward in H. destruct mt; [injection H as <-; split; assumption|].
  destruct (cE c) as [|oldest rest] eqn:EE; [discriminate|].
  destruct (step >=? latency).
  - destruct (add_last (cM c) oldest) as [m'|] eqn:E; [|discriminate]. cbn [bind] in H. injection H as <-.
    apply add_last_length in E. split; cbn [cE cM]; [|congruence].
    rewrite app_length. cbn [length] in *. lia.
  - injection H as <-. split; cbn [cE cM]; [|assumption]. rewrite app_length. cbn [length] in *. lia.
Qed.

Lemma move_out_shape ne nm c sm ed im em rm md moved : shape ne nm c -> shape ne nm (move_out c sm ed im em rm md moved).
Proof. intros [He Hm]. split; cbn [move_out cE cM]; rewrite sub_list_length; assumption. Qed.
Lemma move_in_shape ne nm c sm ed im em rm md moved : shape ne nm c -> shape ne nm (move_in c sm ed im em rm md moved).
Proof. intros [He Hm]. split; cbn [move_in cE cM]; rewrite add_list_length; assumption. Qed.

(* ---------- world level: generic facts about [winv P] ---------- *)
Definition hosts_only (I : world -> Prop) : Prop :=
  forall w w', w_hosts w' = w_hosts w -> I w -> I w'.

Lemma winv_hosts_only (P : cell -> Prop) : hosts_only (winv P).
Proof. intros w w' E H. unfold winv in *. rewrite E. exact H. Qed.

Lemma hoare_hs_inv {A} (m : W A) (I : world -> Prop) :
  hosts_only I -> hosts_same m -> hoare I m (fun _ w => I w).
Proof. intros HI Hm w t a w' t' Hw E. apply Hm in E. exact (HI _ _ E Hw). Qed.

Lemma all_hosts_inv (I : world -> Prop) (f : nat -> W unit) :
  (forall j, hoare I (f j) (fun _ w => I w)) -> hoare I (all_hosts f) (fun _ w => I w).
Proof.
  intros Hf. unfold all_hosts. eapply hoare_bind; [apply hoare_ro, ro_num_hosts|].
  intros n. apply hoare_for_hosts. exact Hf.
Qed.

Lemma for_suitable_inv (I : world -> Prop) g (f : Z -> Z -> nat -> W unit) :
  (forall r c i, hoare I (f r c i) (fun _ w => I w)) -> hoare I (for_suitable g f) (fun _ w => I w).
Proof.
  intros Hf. unfold for_suitable. eapply hoare_bind; [apply hoare_ro, ro_suitable_cells|].
  intros cells. apply hoare_mfold. intros rc _.
  eapply hoare_bind; [apply hoare_ro, ro_lift|]. intros i. apply Hf.
Qed.

Lemma set_host_winv (P : cell -> Prop) k h' :
  Forall P (hp_cells h') -> hoare (winv P) (set_host k h') (fun _ w => winv P w).
Proof.
  intros Ph w t u w' t' HI H. apply set_host_inv in H as (_ & hs & R & ->).
  destruct (rset_spec _ _ _ _ R) as (pre & old & post & E & -> & L).
  unfold winv, hosts_inv in *. cbn [with_hosts w_hosts]. rewrite E in HI.
  apply Forall_app in HI as [HA HB]. inversion HB; subst.
  apply Forall_app; split; [assumption|constructor; assumption].
Qed.

Lemma rset_Forall {A} (P : A -> Prop) l i a l' : Forall P l -> P a -> rset l i a = Ok l' -> Forall P l'.
Proof.
  intros HF Pa R. destruct (rset_spec _ _ _ _ R) as (pre & old & post & -> & -> & _).
  apply Forall_app in HF as [HA HB]. inversion HB; subst.
  apply Forall_app; split; [assumption|constructor; assumption].
Qed.

Lemma set_cell_winv (P : cell -> Prop) k i c' : P c' -> hoare (winv P) (set_cell k i c') (fun _ w => winv P w).
Proof.
  intros Pc w t u w' t' HI H. unfold set_cell in H.
  apply bind_inv in H as (h & s1 & t1 & G & H). apply get_host_inv in G as (-> & -> & Hk).
  apply bind_inv in H as (cs & s2 & t2 & L & H). apply lift_inv in L as (R & -> & ->).
  eapply set_host_winv; [|exact HI|exact H]. cbn [hp_cells].
  eapply rset_Forall; [exact (winv_host _ _ _ _ HI Hk)|exact Pc|exact R].
Qed.

Lemma get_cell_winv (P : cell -> Prop) k i : hoare (winv P) (get_cell k i) (fun c w => P c /\ winv P w).
Proof.
  intros w t c w' t' HI H. apply get_cell_inv in H as (-> & -> & h & Hk & Hi).
  split; [exact (winv_cell _ _ _ _ _ _ HI Hk Hi)|exact HI].
Qed.

Lemma get_host_winv (P : cell -> Prop) k : hoare (winv P) (get_host k) (fun h w => Forall P (hp_cells h) /\ winv P w).
Proof.
  intros w t c w' t' HI H. apply get_host_inv in H as (-> & -> & Hk).
  split; [exact (winv_host _ _ _ _ HI Hk)|exact HI].
Qed.

(* read a cell, replace it by one that satisfies P *)
Lemma lift_cell_winv (P : cell -> Prop) k i (F : cell -> result cell) :
  (forall c c', P c -> F c = Ok c' -> P c') ->
  hoare (winv P) (let* c := get_cell k i in let* c' := lift (F c) in set_cell k i c') (fun _ w => winv P w).
Proof.
  intros HF. eapply hoare_bind; [apply get_cell_winv|]. intros c. apply hoare_pure. intros Pc.
  eapply hoare_bind; [apply hoare_lift|]. intros c'. apply hoare_pure. intros Hc.
  apply set_cell_winv. eapply HF; eauto.
Qed.

(* ---------- dispersal chain, for any invariant that only looks at the hosts ---------- *)
Lemma host_disperser_to_inv (I : world -> Prop) g k i :
  hoare I (host_add_disperser g k i) (fun _ w => I w) ->
  hoare I (host_disperser_to g k i) (fun _ w => I w).
Proof.
  intros Hadd w t a w' t' HW H. unfold host_disperser_to in H. binv'; try assumption.
  by_hoare Hadd.
Qed.

Lemma multi_disperser_to_inv (I : world -> Prop) g i :
  (forall k, hoare I (host_add_disperser g k i) (fun _ w => I w)) ->
  hoare I (multi_disperser_to g i) (fun _ w => I w).
Proof.
  intros Hadd w t a w' t' HW H. unfold multi_disperser_to in H. binv'; try assumption.
  all: try (match goal with E : for_hosts ?k0 ?n0 ?f0 _ _ = Ok _ |- _ =>
      assert (RO : read_only (for_hosts k0 n0 f0))
        by (apply for_hosts_ro; intros j; ro; try apply ro_get_cell; try apply ro_host_cfg);
      apply RO in E; subst; assumption end).
  all: try by_hoare Hadd.
  all: match goal with E : host_disperser_to _ ?k _ _ _ = Ok _ |- _ =>
      pose proof (host_disperser_to_inv _ _ k _ (Hadd k)) as Hto; by_hoare Hto end.
Qed.

Lemma one_disperser_inv (I : world -> Prop) g ri ci i : hosts_only I ->
  (forall k j, hoare I (host_add_disperser g k j) (fun _ w => I w)) ->
  hoare I (one_disperser g ri ci i) (fun _ w => I w).
Proof.
  intros HI Hadd w t a w' t' HW H. unfold one_disperser in H. binv'; try assumption.
  all: try (eapply HI; [|eassumption]; reflexivity).
  all: match goal with E : multi_disperser_to _ ?j _ _ = Ok (_, ?s1, _) |- _ =>
      assert (HW1 : I s1)
        by (pose proof (multi_disperser_to_inv _ _ j (fun k => Hadd k j)) as Hm; by_hoare Hm) end.
  all: try assumption.
  all: match goal with E : set_raster_at _ _ _ _ _ _ = Ok _ |- _ =>
      apply (hs_set_raster_at w_estab upd_estab) in E; [|reflexivity] end.
  all: eapply HI; eassumption.
Qed.

Lemma act_disperse_inv (I : world -> Prop) g : hosts_only I ->
  (forall k j, hoare I (host_add_disperser g k j) (fun _ w => I w)) ->
  hoare I (act_disperse g) (fun _ w => I w).
Proof.
  intros HI Hadd. unfold act_disperse. apply for_suitable_inv. intros r c i.
  eapply hoare_bind; [apply hoare_ro, ro_get|]. intros w0.
  eapply hoare_bind; [apply hoare_ro, ro_lift|]. intros d.
  eapply hoare_bind; [apply hoare_mrepeat, one_disperser_inv; assumption|]. intros ?u.
  destruct (w_soil w0); [|apply hoare_ro, ro_ret].
  eapply hoare_bind; [apply hoare_hs_inv; [exact HI|apply hs_soil_dispersers_from]|]. intros n.
  apply hoare_mrepeat. eapply hoare_bind; [apply multi_disperser_to_inv; intros k; apply Hadd|].
  intros ?u. apply hoare_ro, ro_ret.
Qed.

(* ---------- the actions keep the shape ---------- *)
Section Shape.
Variables ne nm : nat.
Notation WSI := (WS ne nm).
Notation keeps m := (hoare (WS ne nm) m (fun _ w => WS ne nm w)).

Lemma WS_hosts_only : hosts_only WSI.
Proof. apply winv_hosts_only. Qed.

Lemma host_remove_infected_WS k i count : keeps (host_remove_infected k i count).
Proof.
  unfold host_remove_infected.
  eapply hoare_bind; [apply get_cell_winv|]. intros c. apply hoare_pure. intros Pc.
  eapply hoare_bind; [apply hoare_ro; ro; apply ro_pop_draw|]. intros d.
  eapply hoare_bind; [apply hoare_lift|]. intros c'. apply hoare_pure. intros Hc.
  apply set_cell_winv. eapply remove_infected_shape; eauto.
Qed.

Lemma host_remove_exposed_WS k i count : keeps (host_remove_exposed k i count).
Proof.
  unfold host_remove_exposed.
  eapply hoare_bind; [apply get_cell_winv|]. intros c. apply hoare_pure. intros Pc.
  eapply hoare_bind; [apply hoare_ro; ro; apply ro_pop_draw|]. intros d.
  eapply hoare_bind; [apply hoare_lift|]. intros c'. apply hoare_pure. intros Hc.
  apply set_cell_winv. eapply remove_exposed_shape; eauto.
Qed.

Theorem act_lethal_WS g : keeps (act_lethal g).
Proof.
  unfold act_lethal. apply for_suitable_inv. intros r c i.
  eapply hoare_bind; [apply hoare_ro, ro_temperature_at|]. intros temp.
  apply hoare_if; intros _.
  - apply all_hosts_inv. intros k. eapply hoare_bind; [apply hoare_ro, ro_get_cell|]. intros c0.
    apply host_remove_infected_WS.
  - apply hoare_ro, ro_ret.
Qed.

Theorem act_survival_WS g rates : keeps (act_survival g rates).
Proof.
  unfold act_survival. apply for_suitable_inv. intros r c i.
  eapply hoare_bind; [apply hoare_ro, ro_lift|]. intros x.
  apply hoare_if; intros _; [|apply hoare_ro, ro_ret].
  apply all_hosts_inv. intros k. unfold host_remove_by_ratio.
  eapply hoare_bind; [apply hoare_ro, ro_get_cell|]. intros c0.
  eapply hoare_bind; [apply host_remove_infected_WS|]. intros ?u.
  eapply hoare_bind; [apply hoare_ro, ro_get_cell|]. intros c1.
  apply host_remove_exposed_WS.
Qed.

Theorem act_generate_WS g : keeps (act_generate g).
Proof. apply hoare_hs_inv; [apply WS_hosts_only|apply act_generate_hosts_same]. Qed.

Lemma host_add_disperser_WS g k i : keeps (host_add_disperser g k i).
Proof.
  unfold host_add_disperser.
  eapply hoare_bind; [apply get_cell_winv|]. intros c. apply hoare_pure. intros Pc.
  eapply hoare_bind; [apply hoare_ro, ro_host_cfg|]. intros hc.
  eapply hoare_bind; [apply hoare_lift|]. intros r. apply hoare_pure. intros Hr.
  eapply hoare_bind; [apply set_cell_winv; eapply add_disperser_shape; eauto|]. intros ?u.
  apply hoare_ro, ro_ret.
Qed.

Theorem act_disperse_WS g : keeps (act_disperse g).
Proof. apply act_disperse_inv; [apply WS_hosts_only|]. intros k j. apply host_add_disperser_WS. Qed.

Theorem act_step_forward_WS g step : keeps (act_step_forward g step).
Proof.
  unfold act_step_forward. apply all_hosts_inv. intros k.
  eapply hoare_bind; [apply get_host_winv|]. intros h. apply hoare_pure. intros Ph.
  eapply hoare_bind; [apply hoare_ro, ro_host_cfg|]. intros hc.
  eapply hoare_bind; [apply hoare_lift|]. intros cs. apply hoare_pure. intros Hcs.
  apply set_host_winv. cbn [hp_cells]. apply map_result_spec in Hcs.
  clear - Hcs Ph. induction Hcs as [|c c' r r' Hc Hr IH]; [constructor|].
  inversion Ph; subst. constructor; [eapply step_forward_shape; eauto|auto].
Qed.

Lemma act_soil_next_WS w : WSI w -> WSI (act_soil_next w).
Proof. unfold act_soil_next. destruct (w_soil w); auto. Qed.

(* ---- overpopulation ---- *)
Lemma multi_pests_from_WS i count : keeps (multi_pests_from i count).
Proof.
  unfold multi_pests_from.
  eapply hoare_bind; [apply hoare_ro, ro_num_hosts|]. intros n.
  eapply hoare_bind; [apply hoare_ro, ro_pop_draw|]. intros d.
  eapply hoare_bind; [apply hoare_ro, ro_host_field_at|]. intros pops.
  eapply hoare_bind; [apply hoare_ro; ro|]. intros ?u.
  match goal with |- hoare _ (?F 0%nat n d 0) _ =>
    assert (HF : forall m k ds acc, keeps (F k m ds acc)); [|apply HF] end.
  induction m as [|m IH]; intros k ds acc; [apply hoare_ro, ro_ret|].
  destruct ds as [|x r]; [apply hoare_ro, ro_ret|].
  eapply hoare_bind; [apply get_cell_winv|]. intros c. apply hoare_pure. intros Pc.
  eapply hoare_bind; [apply set_cell_winv, pests_from_shape, Pc|]. intros ?u. apply IH.
Qed.

Lemma multi_pests_to_WS i count : keeps (multi_pests_to i count).
Proof.
  unfold multi_pests_to.
  eapply hoare_bind; [apply hoare_ro, ro_num_hosts|]. intros n.
  eapply hoare_bind; [apply hoare_ro, ro_pop_draw|]. intros d.
  eapply hoare_bind; [apply hoare_ro, ro_host_field_at|]. intros pops.
  eapply hoare_bind; [apply hoare_ro; ro|]. intros ?u.
  match goal with |- hoare _ (?F 0%nat n d 0) _ =>
    assert (HF : forall m k ds acc, keeps (F k m ds acc)); [|apply HF] end.
  induction m as [|m IH]; intros k ds acc; [apply hoare_ro, ro_ret|].
  destruct ds as [|x r]; [apply hoare_ro, ro_ret|].
  eapply hoare_bind; [apply get_cell_winv|]. intros c. apply hoare_pure. intros Pc.
  eapply hoare_bind; [apply set_cell_winv, pests_to_shape, Pc|]. intros ?u. apply IH.
Qed.

(* the departures loop, for any invariant that only looks at the hosts *)
Lemma overpop_departures_inv (I : world -> Prop) g : hosts_only I ->
  (forall i count, hoare I (multi_pests_from i count) (fun _ w => I w)) ->
  hoare I (overpop_departures g) (fun _ w => I w).
Proof.
  intros HI Hfrom. unfold overpop_departures.
  eapply hoare_bind; [apply hoare_ro, ro_suitable_cells|]. intros cells.
  match goal with |- hoare _ (?F cells []) _ =>
    assert (HF : forall l moves, hoare I (F l moves) (fun _ w => I w)); [|apply HF] end.
  induction l as [|[ri ci] r IH]; intros moves; [apply hoare_ro, ro_ret|].
  eapply hoare_bind; [apply hoare_ro, ro_lift|]. intros i.
  eapply hoare_bind; [apply hoare_ro, ro_multi_infected_at|]. intros orig.
  destruct (orig <=? 1); [apply IH|].
  eapply hoare_bind; [apply hoare_ro, ro_multi_total_hosts_at|]. intros th.
  destruct (th =? 0); [apply hoare_fail|].
  destruct (Qle_bool _ _); [|apply IH].
  eapply hoare_bind; [apply hoare_ro, ro_pop|]. intros e.
  destruct e; try apply hoare_fail.
  destruct (negb _); [apply hoare_fail|].
  eapply hoare_bind; [apply Hfrom|]. intros leaving.
  destruct (is_outside g row col).
  - eapply hoare_bind; [apply hoare_get|]. intros w0.
    eapply hoare_bind; [|intros ?u; apply IH].
    intros w t a w' t' [-> HW] H. apply put_inv in H as (-> & _).
    eapply HI; [|exact HW]. reflexivity.
  - eapply hoare_bind; [apply hoare_ro, ro_lift|]. intros tgt. apply IH.
Qed.

Theorem act_overpopulation_WS g : keeps (act_overpopulation g).
Proof.
  unfold act_overpopulation.
  eapply hoare_bind; [apply overpop_departures_inv; [apply WS_hosts_only|apply multi_pests_from_WS]|].
  intros moves. apply hoare_mfold. intros mv _.
  eapply hoare_bind; [apply multi_pests_to_WS|]. intros ?u. apply hoare_ro, ro_ret.
Qed.

(* ---- host movement ---- *)
Lemma move_hosts_WS g rf cf rt ct count : keeps (move_hosts g rf cf rt ct count).
Proof.
  unfold move_hosts.
  eapply hoare_bind; [apply hoare_ro, ro_lift|]. intros ifrom.
  eapply hoare_bind; [apply hoare_ro, ro_lift|]. intros ito.
  eapply hoare_bind; [apply hoare_ro, ro_get_cell|]. intros c.
  eapply hoare_bind; [apply hoare_ro, ro_pop|]. intros e.
  destruct e; try apply hoare_fail.
  destruct (negb _); [apply hoare_fail|]. destruct (negb _); [apply hoare_fail|].
  eapply hoare_bind; [apply hoare_ro; ro; apply ro_pop_draw|]. intros ed.
  eapply hoare_bind; [apply hoare_ro; ro|]. intros ?u.
  eapply hoare_bind; [apply hoare_ro; ro; apply ro_pop_draw|]. intros md.
  eapply hoare_bind; [apply hoare_ro; ro|]. intros ?u.
  eapply hoare_bind; [apply hoare_ro, ro_get_cell|]. intros cto0.
  eapply hoare_bind.
  { destruct (cTH cto0 =? 0); [|apply hoare_ro, ro_ret].
    eapply hoare_bind; [apply get_host_winv|]. intros h. apply hoare_pure. intros Ph.
    destruct (existsb _ _); [apply hoare_ro, ro_ret|]. apply set_host_winv. exact Ph. }
  intros ?u.
  eapply hoare_bind; [apply get_cell_winv|]. intros c1. apply hoare_pure. intros P1.
  eapply hoare_bind; [apply set_cell_winv; exact (move_out_shape _ _ c1 _ _ _ _ _ _ _ P1)|]. intros ?u.
  eapply hoare_bind; [apply get_cell_winv|]. intros c2. apply hoare_pure. intros P2.
  eapply hoare_bind; [apply set_cell_winv; exact (move_in_shape _ _ c2 _ _ _ _ _ _ _ P2)|]. intros ?u.
  apply hoare_ro, ro_ret.
Qed.

Lemma movement_loop_WS g step : forall rows i, keeps (movement_loop g step rows i).
Proof.
  induction rows as [|[mv sched] r IH]; intros i; cbn [movement_loop]; [apply hoare_ro, ro_ret|].
  destruct (negb _); [apply hoare_ro, ro_ret|].
  destruct mv as [|rf [|cf [|rt [|ct [|count [|x mv]]]]]]; try apply hoare_fail.
  eapply hoare_bind; [apply move_hosts_WS|]. intros ?u. apply IH.
Qed.

Theorem act_movement_WS g step moves : keeps (act_movement g step moves).
Proof.
  unfold act_movement.
  eapply hoare_bind; [apply hoare_ro, ro_get|]. intros w0.
  eapply hoare_bind; [apply movement_loop_WS|]. intros k.
  eapply hoare_bind; [apply hoare_get|]. intros w1.
  intros w t a w' t' [-> HW] H. apply put_inv in H as (-> & _). exact HW.
Qed.

(* ---- treatments ---- *)
Lemma apply_treatment_WS g k t : keeps (apply_treatment g k t).
Proof.
  unfold apply_treatment. eapply hoare_bind; [apply hoare_ro, ro_get_host|]. intros h.
  apply hoare_mfold. intros rc _.
  eapply hoare_bind; [apply hoare_ro, ro_lift|]. intros i.
  eapply hoare_bind; [apply hoare_ro, ro_lift|]. intros coef.
  apply (lift_cell_winv (shape ne nm) k i
           (fun c => if t_pesticide t then treat_pesticide (t_app t) coef c else treat_removal (t_app t) coef c)).
  intros c c' Pc H. destruct (t_pesticide t);
    [eapply treat_pesticide_shape|eapply treat_removal_shape]; eauto.
Qed.

Lemma end_treatment_WS g k t : keeps (end_treatment g k t).
Proof.
  unfold end_treatment. destruct (t_pesticide t); [|apply hoare_ro, ro_ret].
  eapply hoare_bind; [apply hoare_ro, ro_get_host|]. intros h.
  apply hoare_mfold. intros rc _.
  eapply hoare_bind; [apply hoare_ro, ro_lift|]. intros i.
  eapply hoare_bind; [apply hoare_ro, ro_lift|]. intros coef.
  eapply hoare_bind; [apply get_cell_winv|]. intros c. apply hoare_pure. intros Pc.
  apply set_cell_winv, treat_pesticide_end_shape, Pc.
Qed.

Theorem act_treatments_WS g ts step : keeps (act_treatments g ts step).
Proof.
  unfold act_treatments. apply all_hosts_inv. intros k. unfold manage.
  apply hoare_mfold. intros t _.
  destruct (t_start t =? step); [apply apply_treatment_WS|].
  destruct (_ && _); [apply end_treatment_WS|apply hoare_ro, ro_ret].
Qed.

(* ---- mortality ---- *)
Theorem act_mortality_WS g : keeps (act_mortality g).
Proof.
  unfold act_mortality. eapply hoare_bind.
  - apply for_suitable_inv. intros r c i. apply all_hosts_inv. intros k.
    eapply hoare_bind; [apply hoare_ro, ro_host_cfg|]. intros hc.
    destruct (h_pht hc) as [[[sus rate] lag]|]; [|apply hoare_fail].
    apply (lift_cell_winv (shape ne nm) k i (fun c => apply_mortality c rate lag)).
    intros c0 c' Pc H. eapply apply_mortality_shape; eauto.
  - intros ?u. apply all_hosts_inv. intros k.
    eapply hoare_bind; [apply get_host_winv|]. intros h. apply hoare_pure. intros Ph.
    apply set_host_winv. cbn [hp_cells].
    induction Ph as [|c r Pc _ IH]; cbn [map]; constructor; [apply rotate_mortality_shape, Pc|exact IH].
Qed.
End Shape.

Print Assumptions act_lethal_WS.
Print Assumptions act_survival_WS.
Print Assumptions act_generate_WS.
Print Assumptions act_disperse_WS.
Print Assumptions act_step_forward_WS.
Print Assumptions act_overpopulation_WS.
Print Assumptions act_movement_WS.
Print Assumptions act_treatments_WS.
Print Assumptions act_mortality_WS.
Print Assumptions act_soil_next_WS.
