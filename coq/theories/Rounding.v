(* floor / ceil / lround on Q, as used on products "count * coefficient".
   lround rounds half away from zero (C's lround). Definitions only. *)
From Coq Require Import ZArith QArith Qround.
Local Open Scope Z_scope.

Definition qfloor (q : Q) : Z := Qfloor q.
Definition qceil (q : Q) : Z := Qceiling q.
Definition qhalf : Q := 1 # 2.
Definition qlround (q : Q) : Z :=
  if Qle_bool 0 q then Qfloor (q + qhalf) else - Qfloor (- q + qhalf).

Definition qltb (a b : Q) : bool := negb (Qle_bool b a).
Definition qleb (a b : Q) : bool := Qle_bool a b.
Definition zq (z : Z) : Q := inject_Z z.
