(* C11  Mortality kills only aged cohorts, at the stated rate, eventually all
   infected.  Statements only; proofs in CellProps.v, MortProps.v and
   LandProps.v.  Cells have any number of cohorts.  Tie: bin/check C11. *)
From Coq Require Import ZArith QArith List.
From Pops Require Import Err Rounding CellDefs CellProps MortProps LandDefs MonadProps LandProps ActionProps.
Import ListNotations.
Local Open Scope Z_scope.

(* Which cohorts die and how many: cohorts within the time lag are untouched,
   the oldest dies completely, every other eligible cohort loses floor(rate x size). *)
Theorem C11_cohort_rule : forall c rate lag c', Inv0 c -> (0 < rate)%Q ->
  apply_mortality c rate lag = Ok c' ->
  forall k,
    ((Z.to_nat (Z.of_nat (length (cM c)) - lag) <= k)%nat -> nth k (cM c') 0 = nth k (cM c) 0) /\
    (k = 0%nat -> (0 < Z.to_nat (Z.of_nat (length (cM c)) - lag))%nat -> nth 0 (cM c') 0 = 0) /\
    ((0 < k < Z.to_nat (Z.of_nat (length (cM c)) - lag))%nat ->
       nth k (cM c') 0 = nth k (cM c) 0 - qfloor (rate * zq (nth k (cM c) 0))).
Proof. exact apply_mortality_cohorts. Qed.
Print Assumptions C11_cohort_rule.

(* The dead are added to died and subtracted from infected and total hosts;
   nothing else changes; deaths never exceed the infected present. *)
Theorem C11_died_ledger : forall c rate lag c', Inv0 c -> (0 <= rate <= 1)%Q -> 0 <= lag ->
  apply_mortality c rate lag = Ok c' ->
  Inv0 c' /\ hq c' = hq c /\ cS c' = cS c /\ cE c' = cE c /\ cTE c' = cTE c /\ cR c' = cR c /\
  cD c' - cD c = cI c - cI c' /\ 0 <= cD c' - cD c <= cI c /\
  length (cM c') = length (cM c) /\ (InvM c -> InvM c').
Proof. exact apply_mortality_Inv0. Qed.
Print Assumptions C11_died_ledger.

(* mortality never fails on a cell whose cohorts do not exceed its infected *)
Theorem C11_never_fails : forall c rate lag, Inv0 c -> InvLe c -> (0 <= rate <= 1)%Q -> 0 <= lag ->
  exists c', apply_mortality c rate lag = Ok c'.
Proof. exact apply_mortality_ok. Qed.
Print Assumptions C11_never_fails.

(* ...and the clause "never fails on a state the model produced" is refuted
   when the cohorts exceed infected, which a pesticide treatment can cause
   (known finding C03-mortality-throws-after-pesticide) *)
Theorem C11_never_fails_refuted :
  treat_pesticide Ratio (1 # 2) (mkcell 0 [] 2 0 0 [1; 1] 0 2) = Ok (mkcell 0 [] 1 0 1 [1; 1] 0 2) /\
  apply_mortality (mkcell 0 [] 1 0 1 [1; 1] 0 2) 1 0 = Err RuntimeError.
Proof. exact pesticide_then_mortality_refuted. Qed.
Print Assumptions C11_never_fails_refuted.

(* then all cohorts age by one *)
Theorem C11_ageing : forall c, Inv0 c ->
  Inv0 (rotate_mortality c) /\ hq (rotate_mortality c) = hq c /\
  (InvM c -> InvM (rotate_mortality c)) /\ (InvLe c -> InvLe (rotate_mortality c)) /\
  cM (rotate_mortality c) = rotate_left (cM c).
Proof. exact rotate_mortality_spec. Qed.
Print Assumptions C11_ageing.

(* with rate zero nobody dies *)
Theorem C11_rate_zero : forall rate lag c c', (rate <= 0)%Q -> mort_action rate lag c = Ok c' ->
  cD c' = cD c /\ cI c' = cI c /\ cM c' = rotate_left (cM c) /\ cTH c' = cTH c.
Proof. exact no_death_rate0_unchanged. Qed.
Print Assumptions C11_rate_zero.

(* With a positive rate every infected host is dead at the latest tracker-length
   mortality steps after it was infected, for every interleaving with new
   infection ks (one entry per step): whatever is still infected entered later,
   and at least the initially infected hosts died. *)
Theorem C11_eventual_death : forall rate lag ks c c', Inv0 c -> InvM c -> (0 < rate <= 1)%Q ->
  0 <= lag < Z.of_nat (length (cM c)) -> length ks = length (cM c) ->
  Forall (fun k => 0 <= k) ks -> run_mort rate lag ks c = Ok c' ->
  cI c' <= sumZ ks /\ cI c <= cD c' - cD c.
Proof. exact eventual_death. Qed.
Print Assumptions C11_eventual_death.

(* The whole action, for every host with its own table row (rate, lag per
   host), every landscape and tape: cell invariants and the host total are kept. *)
Theorem C11_action_preserves : forall lv q g, cfg_ok g ->
  hoare (WI lv q) (act_mortality g) (fun _ w => WI lv q w).
Proof. exact act_mortality_WI. Qed.
Print Assumptions C11_action_preserves.

Example C11_nonvacuous :
  run_mort (1 # 2) 1 [1; 0; 2] (mkcell 10 [] 9 0 0 [3; 2; 4] 0 19)
  = Ok (mkcell 7 [] 2 0 0 [0; 2; 0] 10 9).
Proof. vm_compute. reflexivity. Qed.
Print Assumptions C11_nonvacuous.
