(* One raster cell of a HostPool (include/pops/host_pool.hpp): the values the
   pool's rasters hold at that cell, and every per-cell mutator as a pure
   function.  Random draws are explicit arguments (DESIGN.md 3.3).
   Definitions only. *)
From Coq Require Import ZArith QArith List Bool.
From Pops Require Import Err Rounding.
Import ListNotations.
Local Open Scope Z_scope.

Record cell : Set := mkcell
  { cS : Z;            (* susceptible *)
    cE : list Z;       (* exposed cohorts, oldest first *)
    cI : Z;            (* infected *)
    cTE : Z;           (* total_exposed raster (stored, derived) *)
    cR : Z;            (* resistant *)
    cM : list Z;       (* mortality tracker cohorts, oldest first *)
    cD : Z;            (* died *)
    cTH : Z }.         (* total_hosts raster (stored, derived) *)

Inductive model_type : Set := SI | SEI.

Fixpoint sumZ (l : list Z) : Z := match l with [] => 0 | x :: r => x + sumZ r end.

(* pointwise a - b; lengths are checked by the callers *)
Fixpoint sub_list (a b : list Z) : list Z :=
  match a, b with
  | x :: ra, y :: rb => (x - y) :: sub_list ra rb
  | _, _ => a
  end.
Fixpoint add_list (a b : list Z) : list Z :=
  match a, b with
  | x :: ra, y :: rb => (x + y) :: add_list ra rb
  | _, _ => a
  end.

(* vector.back() += v ; back() of an empty vector is undefined behaviour *)
Fixpoint add_last (l : list Z) (v : Z) : result (list Z) :=
  match l with
  | [] => Err UB_OutOfBounds
  | [x] => Ok [x + v]
  | x :: r => do r' <- add_last r v; Ok (x :: r')
  end.

(* std::rotate(begin, begin + 1, end) *)
Definition rotate_left (l : list Z) : list Z :=
  match l with [] => [] | x :: r => r ++ [x] end.

(* hosts of all classes in a cell *)
Definition hosts (c : cell) : Z := cS c + sumZ (cE c) + cI c + cR c.

(* ---- draws ---- *)
(* draw_n_from_v(v, n): n is converted to unsigned, so a negative n draws all *)
Definition draw_total (n : Z) (pop : list Z) : Z :=
  if n <? 0 then sumZ pop else Z.min n (sumZ pop).

Fixpoint draw_within (pop d : list Z) : bool :=
  match pop, d with
  | [], [] => true
  | p :: rp, x :: rd => (0 <=? x) && (x <=? p) && draw_within rp rd
  | _, _ => false
  end.

(* a draw of n individuals from cohort sizes pop, as counts per cohort *)
Definition valid_draw (pop d : list Z) (n : Z) : bool :=
  draw_within pop d && (sumZ d =? draw_total n pop).

(* ---- HostPool mutators ---- *)

(* add_disperser_at; returns the cell and the number established (0/1) *)
Definition add_disperser (mt : model_type) (c : cell) : result (cell * Z) :=
  if cS c <=? 0 then Ok (c, 0)
  else match mt with
  | SI =>
    do m' <- add_last (cM c) 1;
    Ok (mkcell (cS c - 1) (cE c) (cI c + 1) (cTE c) (cR c) m' (cD c) (cTH c), 1)
  | SEI =>
    do e' <- add_last (cE c) 1;
    Ok (mkcell (cS c - 1) e' (cI c) (cTE c + 1) (cR c) (cM c) (cD c) (cTH c), 1)
  end.

(* remove_infected_at(count) with the mortality-cohort draw d *)
Definition remove_infected (c : cell) (count : Z) (d : list Z) : result cell :=
  if count >? 0 then
    if valid_draw (cM c) d count then
      Ok (mkcell (cS c + count) (cE c) (cI c - count) (cTE c) (cR c)
                 (sub_list (cM c) d) (cD c) (cTH c))
    else Err TapeMismatch
  else Ok (mkcell (cS c + count) (cE c) (cI c - count) (cTE c) (cR c) (cM c) (cD c) (cTH c)).

(* remove_exposed_at(count) with the exposed-cohort draw d *)
Definition remove_exposed (c : cell) (count : Z) (d : list Z) : result cell :=
  if count >? 0 then
    if valid_draw (cE c) d count then
      Ok (mkcell (cS c + count) (sub_list (cE c) d) (cI c) (cTE c - count) (cR c)
                 (cM c) (cD c) (cTH c))
    else Err TapeMismatch
  else Ok (mkcell (cS c + count) (cE c) (cI c) (cTE c - count) (cR c) (cM c) (cD c) (cTH c)).

(* counts removed by remove_infection_by_ratio_at *)
Definition ratio_removed (n : Z) (ratio : Q) : Z := n - qlround (zq n * ratio).

(* pests_from / pests_to; return the cell and the count moved *)
Definition pests_from (c : cell) (count : Z) : cell * Z :=
  (mkcell (cS c + count) (cE c) (cI c - count) (cTE c) (cR c) (cM c) (cD c) (cTH c), count).
Definition pests_to (c : cell) (count : Z) : cell * Z :=
  let k := if cS c >=? count then count else cS c in
  (mkcell (cS c - k) (cE c) (cI c + k) (cTE c) (cR c) (cM c) (cD c) (cTH c), k).

(* reset_total_host *)
Definition reset_total (c : cell) : cell :=
  mkcell (cS c) (cE c) (cI c) (cTE c) (cR c) (cM c) (cD c) (cS c + sumZ (cE c) + cI c + cR c).

Fixpoint all_leb (a b : list Z) : bool :=
  match a, b with
  | x :: ra, y :: rb => (x <=? y) && all_leb ra rb
  | _, _ => true
  end.
(* index of the first position where m > tracker (the exception is thrown there,
   after the earlier positions were already updated: the model only reports the error) *)

(* completely_remove_hosts_at(susceptible, exposed, infected, mortality) *)
Definition completely_remove (c : cell) (s : Z) (e : list Z) (i : Z) (m : list Z)
  : result cell :=
  let s1 := if s >? 0 then cS c - s else cS c in
  if negb (Nat.eqb (length e) (length (cE c))) then Err InvalidArgument
  else
    let e1 := sub_list (cE c) e in
    let te1 := cTE c - sumZ e in
    if i <=? 0 then Ok (reset_total (mkcell s1 e1 (cI c) te1 (cR c) (cM c) (cD c) (cTH c)))
    else if negb (Nat.eqb (length (cM c)) (length m)) then Err InvalidArgument
    else if negb (all_leb m (cM c)) then Err InvalidArgument
    else Ok (reset_total (mkcell s1 e1 (cI c - i) te1 (cR c) (sub_list (cM c) m) (cD c) (cTH c))).

(* make_resistant_at(susceptible, exposed, infected, mortality) *)
Definition make_resistant (c : cell) (s : Z) (e : list Z) (i : Z) (m : list Z)
  : result cell :=
  if cS c <? s then Err InvalidArgument
  else if negb (Nat.eqb (length e) (length (cE c))) then Err InvalidArgument
  else if negb (Nat.eqb (length (cM c)) (length m)) then Err InvalidArgument
  else Ok (mkcell (cS c - s) (sub_list (cE c) e) (cI c - i) (cTE c - sumZ e)
                  (cR c + (s + sumZ e + i)) (sub_list (cM c) m) (cD c) (cTH c)).

(* remove_resistance_at *)
Definition remove_resistance (c : cell) : cell :=
  mkcell (cS c + cR c) (cE c) (cI c) (cTE c) 0 (cM c) (cD c) (cTH c).

(* apply_mortality_at(rate, lag): cohorts index 0 .. size - lag - 1 *)
Fixpoint mortality_loop (k : nat) (index : Z) (rate : Q) (m : list Z) (i th d : Z)
  : result (list Z * Z * Z * Z) :=
  match k, m with
  | S k', x :: r =>
    if x >? 0 then
      let dead := if index =? 0 then x else qfloor (rate * zq x) in
      if dead >? i then Err RuntimeError
      else if dead >? th then Err RuntimeError
      else
        let i' := if i >? 0 then i - dead else i in
        let th' := if th >? 0 then th - dead else th in
        do res <- mortality_loop k' (index + 1) rate r i' th' (d + dead);
        let '(r', i'', th'', d'') := res in
        Ok ((x - dead) :: r', i'', th'', d'')
    else
      do res <- mortality_loop k' (index + 1) rate r i th d;
      let '(r', i'', th'', d'') := res in
      Ok (x :: r', i'', th'', d'')
  | _, _ => Ok (m, i, th, d)
  end.

Definition apply_mortality (c : cell) (rate : Q) (lag : Z) : result cell :=
  if Qle_bool rate 0 then Ok c
  else if lag <? 0 then Err UB_OutOfBounds   (* would index past the tracker *)
  else
    let n := Z.of_nat (length (cM c)) - lag in   (* max_index + 1 *)
    do res <- mortality_loop (Z.to_nat n) 0 rate (cM c) (cI c) (cTH c) (cD c);
    let '(m', i', th', d') := res in
    Ok (mkcell (cS c) (cE c) i' (cTE c) (cR c) m' d' th').

(* step_forward_mortality, per cell *)
Definition rotate_mortality (c : cell) : cell :=
  mkcell (cS c) (cE c) (cI c) (cTE c) (cR c) (rotate_left (cM c)) (cD c) (cTH c).

(* step_forward(step), per cell *)
Definition step_forward (mt : model_type) (latency step : Z) (c : cell) : result cell :=
  match mt with
  | SI => Ok c
  | SEI =>
    match cE c with
    | [] => Err UB_OutOfBounds   (* exposed_.front() / rotate of an empty vector *)
    | oldest :: rest =>
      if step >=? latency then
        do m' <- add_last (cM c) oldest;
        Ok (mkcell (cS c) (rest ++ [0]) (cI c + oldest) (cTE c - oldest) (cR c) m' (cD c) (cTH c))
      else
        Ok (mkcell (cS c) (rest ++ [oldest]) (cI c) (cTE c) (cR c) (cM c) (cD c) (cTH c))
    end
  end.

(* ---- treatments (treatments.hpp), per cell ---- *)
Inductive treatment_app : Set := Ratio | AllInfectedInCell.

Definition get_treated (app : treatment_app) (coef : Q) (count : Z) : Q :=
  match app with
  | Ratio => zq count * coef
  | AllInfectedInCell => if Qeq_bool coef 0 then 0%Q else zq count
  end.

(* SimpleTreatment::apply_treatment at one cell *)
Definition treat_removal (app : treatment_app) (coef : Q) (c : cell) : result cell :=
  completely_remove c
    (qceil (get_treated Ratio coef (cS c)))
    (map (fun x => qceil (get_treated app coef x)) (cE c))
    (qceil (get_treated app coef (cI c)))
    (map (fun x => qceil (get_treated app coef x)) (cM c)).

(* PesticideTreatment::apply_treatment at one cell *)
Definition treat_pesticide (app : treatment_app) (coef : Q) (c : cell) : result cell :=
  make_resistant c
    (qfloor (get_treated Ratio coef (cS c)))
    (map (fun x => qfloor (get_treated app coef x)) (cE c))
    (qfloor (get_treated app coef (cI c)))
    (map (fun x => qfloor (get_treated app coef x)) (cM c)).

(* PesticideTreatment::end_treatment at one cell *)
Definition treat_pesticide_end (coef : Q) (c : cell) : cell :=
  if qltb 0 coef then remove_resistance c else c.
