(* Landscape-level invariants: every action of the model preserves the cell
   invariants of CellProps.v in every cell of every host, and the conserved
   quantity (hosts alive + died) changes only by what removal treatments take
   out.  All statements hold for every tape of random outcomes. *)
From Coq Require Import ZArith QArith List Bool Lia.
From Pops Require Import Err Rounding RoundingProps CellDefs CellProps LandDefs MonadProps.
Import ListNotations.
Local Open Scope Z_scope.

(* ---------- invariant levels ---------- *)
Inductive level : Set := Basic | Le | Eq.
Definition cinv (lv : level) (c : cell) : Prop :=
  Inv0 c /\ match lv with Basic => True | Le => InvLe c | Eq => InvM c end.

Lemma cinv_Inv0 lv c : cinv lv c -> Inv0 c.
Proof. intros [H _]; exact H. Qed.

Lemma InvM_InvLe c : InvM c -> InvLe c.
Proof. unfold InvM, InvLe. lia. Qed.

(* build cinv from the conjunction the CellProps lemmas provide *)
Lemma cinv_intro lv c c' : cinv lv c -> Inv0 c' -> (InvM c -> InvM c') -> (InvLe c -> InvLe c') -> cinv lv c'.
Proof. intros [H0 H] I0 IM IL. split; [assumption|]. destruct lv; auto. Qed.

(* ---------- hosts as lists of cells ---------- *)
Definition hosts_inv (P : cell -> Prop) (hs : list hostpool) : Prop :=
  Forall (fun h => Forall P (hp_cells h)) hs.
Fixpoint sum_hq (cs : list cell) : Z := match cs with [] => 0 | c :: r => hq c + sum_hq r end.
Fixpoint hosts_hq (hs : list hostpool) : Z :=
  match hs with [] => 0 | h :: r => sum_hq (hp_cells h) + hosts_hq r end.

Definition winv (P : cell -> Prop) (w : world) : Prop := hosts_inv P (w_hosts w).
Definition whq (w : world) : Z := hosts_hq (w_hosts w).

(* ---------- rget / rset ---------- *)
Lemma rget_Some {A} (l : list A) i a : rget l i = Ok a <-> nth_error l i = Some a.
Proof. unfold rget. destruct (nth_error l i); split; congruence. Qed.

Lemma rset_spec {A} (l : list A) : forall i a l', rset l i a = Ok l' ->
  exists pre old post, l = pre ++ old :: post /\ l' = pre ++ a :: post /\ length pre = i.
Proof.
  induction l as [|x r IH]; intros i a l' H; cbn [rset] in H; [discriminate|].
  destruct i as [|i].
  - injection H as <-. exists [], x, r. auto.
  - destruct (rset r i a) as [r'|] eqn:E; [|discriminate]. cbn [bind] in H. injection H as <-.
    destruct (IH _ _ _ E) as (pre & old & post & -> & -> & Hl).
    exists (x :: pre), old, post. cbn [app length]. auto.
Qed.

Lemma nth_error_mid {A} (pre : list A) x post : nth_error (pre ++ x :: post) (length pre) = Some x.
Proof. induction pre as [|y r IH]; cbn; auto. Qed.

Lemma sum_hq_app a b : sum_hq (a ++ b) = sum_hq a + sum_hq b.
Proof. induction a as [|x r IH]; cbn [app sum_hq]; lia. Qed.
Lemma hosts_hq_app a b : hosts_hq (a ++ b) = hosts_hq a + hosts_hq b.
Proof. induction a as [|x r IH]; cbn [app hosts_hq]; lia. Qed.

(* replacing one cell of one host *)
Lemma replace_cell P hs k i h c c' cs' hs' :
  hosts_inv P hs -> nth_error hs k = Some h -> nth_error (hp_cells h) i = Some c ->
  rset (hp_cells h) i c' = Ok cs' -> rset hs k (mkhp cs' (hp_suitable h)) = Ok hs' ->
  P c' -> hosts_inv P hs' /\ hosts_hq hs' = hosts_hq hs - hq c + hq c'.
Proof.
  intros HI Hk Hi R1 R2 Pc'.
  destruct (rset_spec _ _ _ _ R1) as (pre & old & post & Ecs & -> & L1).
  destruct (rset_spec _ _ _ _ R2) as (hpre & hold & hpost & -> & -> & L2).
  rewrite <- L2, nth_error_mid in Hk. injection Hk as ->.
  rewrite Ecs, <- L1, nth_error_mid in Hi. injection Hi as ->.
  unfold hosts_inv in *. apply Forall_app in HI as [HA HB]. inversion HB as [|? ? Hh HB']; subst.
  rewrite Ecs in Hh. apply Forall_app in Hh as [Hp Hq]. inversion Hq as [|? ? _ Hq']; subst.
  split.
  - apply Forall_app; split; [assumption|]. constructor; [|assumption]. cbn [hp_cells].
    apply Forall_app; split; [assumption|]. constructor; assumption.
  - rewrite !hosts_hq_app. cbn [hosts_hq hp_cells]. rewrite Ecs, !sum_hq_app. cbn [sum_hq]. lia.
Qed.

(* ---------- inversion of monadic equations ---------- *)
Ltac inv_ok H := injection H; clear H; intros; subst.

Lemma ret_inv {S A} (a : A) (s : S) t x s' t' : ret a s t = Ok (x, s', t') -> x = a /\ s' = s /\ t' = t.
Proof. intros [= <- <- <-]. auto. Qed.
Lemma get_inv {S} (s : S) t x s' t' : get s t = Ok (x, s', t') -> x = s /\ s' = s /\ t' = t.
Proof. intros [= <- <- <-]. auto. Qed.
Lemma put_inv {S} (s0 s : S) t x s' t' : put s0 s t = Ok (x, s', t') -> s' = s0 /\ t' = t.
Proof. intros H. unfold put in H. injection H as _ <- <-. auto. Qed.
Lemma lift_inv {S A} (r : result A) (s : S) t x s' t' : lift r s t = Ok (x, s', t') -> r = Ok x /\ s' = s /\ t' = t.
Proof. unfold lift. destruct r; [|discriminate]. intros [= <- <- <-]. auto. Qed.
Lemma pop_inv {S} (s : S) t x s' t' : pop s t = Ok (x, s', t') -> s' = s /\ t = x :: t'.
Proof. unfold pop. destruct t; [discriminate|]. intros [= <- <- <-]. auto. Qed.
Lemma bind_inv {S A B} (m : M S A) (f : A -> M S B) s t r :
  mbind m f s t = Ok r -> exists a s1 t1, m s t = Ok (a, s1, t1) /\ f a s1 t1 = Ok r.
Proof. unfold mbind. destruct (m s t) as [[[a s1] t1]|]; [|discriminate]. eauto. Qed.

(* ---------- primitive accessors ---------- *)
Lemma get_host_inv k w t h w' t' : get_host k w t = Ok (h, w', t') ->
  w' = w /\ t' = t /\ nth_error (w_hosts w) k = Some h.
Proof.
  unfold get_host. intros H. apply bind_inv in H as (a & s1 & t1 & G & L).
  apply get_inv in G as (-> & -> & ->). apply lift_inv in L as (R & -> & ->).
  apply rget_Some in R. auto.
Qed.

Definition with_hosts (w : world) (hs : list hostpool) : world :=
  mkworld hs (w_disp w) (w_estab w) (w_outside w) (w_soil w) (w_weather w)
          (w_totpop w) (w_other w) (w_temp w) (w_last_index w).

Lemma set_host_inv k h w t u w' t' : set_host k h w t = Ok (u, w', t') ->
  t' = t /\ exists hs, rset (w_hosts w) k h = Ok hs /\ w' = with_hosts w hs.
Proof.
  unfold set_host. intros H. apply bind_inv in H as (a & s1 & t1 & G & H).
  apply get_inv in G as (-> & -> & ->).
  apply bind_inv in H as (hs & s2 & t2 & L & P).
  apply lift_inv in L as (R & -> & ->). apply put_inv in P as (-> & ->).
  split; [reflexivity|]. exists hs. auto.
Qed.

Lemma get_cell_inv k i w t c w' t' : get_cell k i w t = Ok (c, w', t') ->
  w' = w /\ t' = t /\ exists h, nth_error (w_hosts w) k = Some h /\ nth_error (hp_cells h) i = Some c.
Proof.
  unfold get_cell. intros H. apply bind_inv in H as (h & s1 & t1 & G & L).
  apply get_host_inv in G as (-> & -> & Hk). apply lift_inv in L as (R & -> & ->).
  apply rget_Some in R. eauto.
Qed.

(* the effect of set_cell on the invariants, given the cell it replaces *)
Lemma set_cell_inv P k i c c' w t u w' t' h :
  winv P w -> nth_error (w_hosts w) k = Some h -> nth_error (hp_cells h) i = Some c -> P c' ->
  set_cell k i c' w t = Ok (u, w', t') ->
  t' = t /\ winv P w' /\ whq w' = whq w - hq c + hq c' /\
  w_disp w' = w_disp w /\ w_estab w' = w_estab w /\ w_outside w' = w_outside w /\ w_soil w' = w_soil w.
Proof.
  intros HI Hk Hi Pc H. unfold set_cell in H.
  apply bind_inv in H as (h0 & s1 & t1 & G & H). apply get_host_inv in G as (-> & -> & Hk0).
  rewrite Hk in Hk0. injection Hk0 as <-.
  apply bind_inv in H as (cs & s2 & t2 & L & H). apply lift_inv in L as (R1 & -> & ->).
  apply set_host_inv in H as (-> & hs & R2 & ->).
  destruct (replace_cell P _ _ _ _ _ _ _ _ HI Hk Hi R1 R2 Pc) as (A & B).
  unfold winv, whq, with_hosts; cbn [w_hosts w_disp w_estab w_outside w_soil]. repeat split; auto.
Qed.

(* ---------- read-only computations ---------- *)
Definition read_only {A} (m : W A) : Prop :=
  forall w t a w' t', m w t = Ok (a, w', t') -> w' = w.

Lemma ro_ret {A} (a : A) : read_only (ret a).
Proof. intros w t x w' t' H. apply ret_inv in H. tauto. Qed.
Lemma ro_fail {A} e : read_only (@fail world A e).
Proof. intros w t x w' t' H. discriminate. Qed.
Lemma ro_get : read_only (@get world).
Proof. intros w t x w' t' H. apply get_inv in H. tauto. Qed.
Lemma ro_lift {A} (r : result A) : read_only (lift r).
Proof. intros w t x w' t' H. apply lift_inv in H. tauto. Qed.
Lemma ro_pop : read_only (@pop world).
Proof. intros w t x w' t' H. apply pop_inv in H. tauto. Qed.
Lemma ro_bind {A B} (m : W A) (f : A -> W B) :
  read_only m -> (forall a, read_only (f a)) -> read_only (mbind m f).
Proof.
  intros Hm Hf w t x w' t' H. apply bind_inv in H as (a & s1 & t1 & E1 & E2).
  apply Hm in E1. subst. eapply Hf; eauto.
Qed.

Ltac ro_step :=
  match goal with
  | |- read_only (mbind _ _) => apply ro_bind; [|intros ?]
  | |- read_only (ret _) => apply ro_ret
  | |- read_only (fail _) => apply ro_fail
  | |- read_only get => apply ro_get
  | |- read_only (lift _) => apply ro_lift
  | |- read_only pop => apply ro_pop
  | |- read_only (if ?b then _ else _) => destruct b
  | |- read_only (match ?x with _ => _ end) => destruct x
  | |- read_only (let '(_, _) := ?x in _) => destruct x
  end.
Ltac ro := repeat ro_step.

Lemma ro_get_host k : read_only (get_host k).
Proof. unfold get_host. ro. Qed.
Lemma ro_get_cell k i : read_only (get_cell k i).
Proof. unfold get_cell. ro. apply ro_get_host. Qed.
Lemma ro_host_cfg g k : read_only (host_cfg g k).
Proof. unfold host_cfg. ro. Qed.
Lemma ro_num_hosts : read_only num_hosts.
Proof. unfold num_hosts. ro. Qed.
Lemma ro_weather_at i : read_only (weather_at i).
Proof. unfold weather_at. ro. Qed.
Lemma ro_total_population_at i : read_only (total_population_at i).
Proof. unfold total_population_at. ro. Qed.
Lemma ro_temperature_at i : read_only (temperature_at i).
Proof. unfold temperature_at. ro. Qed.
Lemma ro_host_presence_at i : read_only (host_presence_at i).
Proof. unfold host_presence_at. ro. Qed.
Lemma ro_host_field_at f i : read_only (host_field_at f i).
Proof. unfold host_field_at. ro. Qed.
Lemma ro_suitability_at g k i : read_only (suitability_at g k i).
Proof.
  unfold suitability_at. ro; try apply ro_get_cell; try apply ro_host_cfg;
    try apply ro_total_population_at; try apply ro_weather_at.
Qed.
Lemma ro_can_establish p s d : read_only (can_establish p s d).
Proof. unfold can_establish. ro. Qed.
Lemma ro_pick_host ws : read_only (pick_host ws).
Proof. unfold pick_host. ro. Qed.
Lemma ro_suitabilities g i : forall n k, read_only (suitabilities g i k n).
Proof. induction n as [|n IH]; intros k; cbn [suitabilities]; ro; auto using ro_suitability_at. Qed.
Lemma ro_pop_draw k : read_only (pop_draw k).
Proof. unfold pop_draw. ro. Qed.
Lemma ro_competency_at g k i : read_only (competency_at g k i).
Proof. unfold competency_at. ro. apply ro_host_presence_at. Qed.
Lemma ro_host_dispersers_from g k i : read_only (host_dispersers_from g k i).
Proof.
  unfold host_dispersers_from. ro; try apply ro_get_cell; try apply ro_host_cfg;
    try apply ro_weather_at; try apply ro_competency_at.
Qed.
Lemma ro_suitable_cells : read_only suitable_cells.
Proof. unfold suitable_cells. ro. apply ro_get_host. Qed.
Lemma ro_multi_infected_at i : read_only (multi_infected_at i).
Proof. unfold multi_infected_at. ro. Qed.
Lemma ro_multi_total_hosts_at i : read_only (multi_total_hosts_at i).
Proof. unfold multi_total_hosts_at. ro. Qed.

(* a read-only computation preserves any assertion *)
Lemma hoare_ro {A} (m : W A) (I : world -> Prop) : read_only m -> hoare I m (fun _ s => I s).
Proof. intros Hm s t a s' t' Hs E. apply Hm in E. subst. assumption. Qed.

(* ---------- the world invariant ---------- *)
Definition WI (lv : level) (q : Z) (w : world) : Prop := winv (cinv lv) w /\ whq w = q.

Lemma winv_cell P w k i h c : winv P w -> nth_error (w_hosts w) k = Some h ->
  nth_error (hp_cells h) i = Some c -> P c.
Proof.
  intros HI Hk Hi. unfold winv, hosts_inv in HI. rewrite Forall_forall in HI.
  specialize (HI h (nth_error_In _ _ Hk)). rewrite Forall_forall in HI. apply HI. eapply nth_error_In; eauto.
Qed.

(* generic: read a cell, compute a replacement that keeps the invariant and
   changes hq by -delta, write it back *)
Lemma update_cell_WI lv q k i c c' delta w t u w' t' h :
  WI lv q w -> nth_error (w_hosts w) k = Some h -> nth_error (hp_cells h) i = Some c ->
  cinv lv c' -> hq c' = hq c - delta ->
  set_cell k i c' w t = Ok (u, w', t') -> WI lv (q - delta) w' /\ t' = t.
Proof.
  intros [HI Hq] Hk Hi Pc Hd H.
  destruct (set_cell_inv _ _ _ _ _ _ _ _ _ _ _ HI Hk Hi Pc H) as (-> & A & B & _).
  split; [|reflexivity]. split; [assumption|]. lia.
Qed.

Ltac ro_inv H lem := apply lem in H; subst.
Ltac binv :=
  repeat match goal with
  | H : mbind _ _ _ _ = Ok _ |- _ =>
    let a := fresh "a" in let s := fresh "s" in let t := fresh "t" in let E := fresh "E" in
    apply bind_inv in H as (a & s & t & E & H)
  | H : ret _ _ _ = Ok _ |- _ => apply ret_inv in H as (? & ? & ?); subst
  | H : get _ _ = Ok _ |- _ => apply get_inv in H as (? & ? & ?); subst
  | H : lift _ _ _ = Ok _ |- _ => apply lift_inv in H as (? & ? & ?); subst
  | H : pop _ _ = Ok _ |- _ => apply pop_inv in H as (? & ?); subst
  | H : put _ _ _ = Ok _ |- _ => apply put_inv in H as (? & ?); subst
  | H : fail _ _ _ = Ok _ |- _ => discriminate H
  | H : get_cell _ _ _ _ = Ok _ |- _ =>
    let h := fresh "h" in let Hk := fresh "Hk" in let Hi := fresh "Hi" in
    apply get_cell_inv in H as (? & ? & h & Hk & Hi); subst
  | H : host_cfg _ _ _ _ = Ok _ |- _ => ro_inv H ro_host_cfg
  | H : num_hosts _ _ = Ok _ |- _ => ro_inv H ro_num_hosts
  | H : weather_at _ _ _ = Ok _ |- _ => ro_inv H ro_weather_at
  | H : total_population_at _ _ _ = Ok _ |- _ => ro_inv H ro_total_population_at
  | H : temperature_at _ _ _ = Ok _ |- _ => ro_inv H ro_temperature_at
  | H : host_field_at _ _ _ _ = Ok _ |- _ => ro_inv H ro_host_field_at
  | H : suitability_at _ _ _ _ _ = Ok _ |- _ => ro_inv H ro_suitability_at
  | H : suitabilities _ _ _ _ _ _ = Ok _ |- _ => ro_inv H ro_suitabilities
  | H : can_establish _ _ _ _ _ = Ok _ |- _ => ro_inv H ro_can_establish
  | H : pick_host _ _ _ = Ok _ |- _ => ro_inv H ro_pick_host
  | H : pop_draw _ _ _ = Ok _ |- _ => ro_inv H ro_pop_draw
  | H : suitable_cells _ _ = Ok _ |- _ => ro_inv H ro_suitable_cells
  | H : multi_infected_at _ _ _ = Ok _ |- _ => ro_inv H ro_multi_infected_at
  | H : multi_total_hosts_at _ _ _ = Ok _ |- _ => ro_inv H ro_multi_total_hosts_at
  end.

(* when the same cell is read twice from the same world *)
Lemma same_cell w k i h h' c c' :
  nth_error (w_hosts w) k = Some h -> nth_error (hp_cells h) i = Some c ->
  nth_error (w_hosts w) k = Some h' -> nth_error (hp_cells h') i = Some c' -> h' = h /\ c' = c.
Proof. intros A B C D. rewrite A in C. injection C as <-. rewrite B in D. injection D as <-. auto. Qed.

(* ---- add_disperser_at ---- *)
Lemma host_add_disperser_WI lv q g k i :
  hoare (WI lv q) (host_add_disperser g k i) (fun _ w => WI lv q w).
Proof.
  intros w t a w' t' HW H. unfold host_add_disperser in H. binv.
  match goal with Ha : add_disperser _ ?c = Ok ?r, Hs : set_cell _ _ _ _ _ = Ok _ |- _ =>
    destruct r as [c' n]; cbn [fst snd] in *;
    pose proof (winv_cell _ _ _ _ _ _ (proj1 HW) Hk Hi) as Pc;
    destruct (add_disperser_spec _ _ _ _ (cinv_Inv0 _ _ Pc) Ha) as (I0 & Hq & IM & IL & _);
    destruct (update_cell_WI lv q k i c c' 0 _ _ _ _ _ _ HW Hk Hi
                (cinv_intro _ _ _ Pc I0 IM IL) ltac:(lia) Hs) as (A & _)
  end.
  replace (q - 0) with q in A by lia. exact A.
Qed.

Ltac binv' :=
  repeat (binv;
          match goal with
          | H : (if ?b then _ else _) _ _ = Ok _ |- _ => destruct b eqn:?
          | H : (match ?x with _ => _ end) _ _ = Ok _ |- _ => destruct x eqn:?
          end); binv.

Ltac by_hoare L := eapply L; [|eassumption]; eassumption.

(* ---- disperser_to (single host, and through the multi-host pool) ---- *)
Lemma host_disperser_to_WI lv q g k i :
  hoare (WI lv q) (host_disperser_to g k i) (fun _ w => WI lv q w).
Proof.
  intros w t a w' t' HW H. unfold host_disperser_to in H. binv'; try assumption.
  by_hoare host_add_disperser_WI.
Qed.

Lemma for_hosts_ro (f : nat -> W unit) : (forall j, read_only (f j)) -> forall n k, read_only (for_hosts k n f).
Proof.
  intros Hf n. induction n as [|n IH]; intros k; cbn [for_hosts]; [apply ro_ret|].
  apply ro_bind; [apply Hf|intros _; apply IH].
Qed.

Lemma multi_disperser_to_WI lv q g i :
  hoare (WI lv q) (multi_disperser_to g i) (fun _ w => WI lv q w).
Proof.
  intros w t a w' t' HW H. unfold multi_disperser_to in H. binv'; try assumption.
  all: try (match goal with E : for_hosts ?k0 ?n0 ?f0 _ _ = Ok _ |- _ =>
      assert (RO : read_only (for_hosts k0 n0 f0))
        by (apply for_hosts_ro; intros j; ro; try apply ro_get_cell; try apply ro_host_cfg);
      apply RO in E; subst; assumption end).
  all: first [by_hoare host_add_disperser_WI | by_hoare host_disperser_to_WI].
Qed.

(* ---- removal of infection / exposure ---- *)
Lemma host_remove_infected_WI lv q k i count w t u w' t' :
  WI lv q w ->
  (forall h c, nth_error (w_hosts w) k = Some h -> nth_error (hp_cells h) i = Some c -> 0 <= count <= cI c) ->
  host_remove_infected k i count w t = Ok (u, w', t') -> WI lv q w'.
Proof.
  intros HW Hc H. unfold host_remove_infected in H. binv'.
  all: match goal with Hr : remove_infected ?c _ _ = Ok ?c', Hs : set_cell _ _ _ _ _ = Ok _ |- _ =>
    pose proof (winv_cell _ _ _ _ _ _ (proj1 HW) Hk Hi) as Pc;
    destruct (remove_infected_spec _ _ _ _ (cinv_Inv0 _ _ Pc) (Hc _ _ Hk Hi) Hr) as (I0 & Hq & IM & IL & _);
    destruct (update_cell_WI lv q k i c c' 0 _ _ _ _ _ _ HW Hk Hi
                (cinv_intro _ _ _ Pc I0 IM IL) ltac:(lia) Hs) as (A & _);
    replace (q - 0) with q in A by lia; exact A end.
Qed.

Lemma host_remove_exposed_WI lv q k i count w t u w' t' :
  WI lv q w ->
  (forall h c, nth_error (w_hosts w) k = Some h -> nth_error (hp_cells h) i = Some c -> 0 <= count <= cTE c) ->
  host_remove_exposed k i count w t = Ok (u, w', t') -> WI lv q w'.
Proof.
  intros HW Hc H. unfold host_remove_exposed in H. binv'.
  all: match goal with Hr : remove_exposed ?c _ _ = Ok ?c', Hs : set_cell _ _ _ _ _ = Ok _ |- _ =>
    pose proof (winv_cell _ _ _ _ _ _ (proj1 HW) Hk Hi) as Pc;
    destruct (remove_exposed_spec _ _ _ _ (cinv_Inv0 _ _ Pc) (Hc _ _ Hk Hi) Hr) as (I0 & Hq & IM & IL & _);
    destruct (update_cell_WI lv q k i c c' 0 _ _ _ _ _ _ HW Hk Hi
                (cinv_intro _ _ _ Pc I0 IM IL) ltac:(lia) Hs) as (A & _);
    replace (q - 0) with q in A by lia; exact A end.
Qed.

Lemma Inv0_TE_nonneg c : Inv0 c -> 0 <= cTE c.
Proof. intros (_ & HE & _ & _ & _ & _ & _ & ->). apply sumZ_nonneg. exact HE. Qed.
Lemma Inv0_I_nonneg c : Inv0 c -> 0 <= cI c.
Proof. intros (_ & _ & H & _). exact H. Qed.

(* remove_all_infected_at *)
Lemma remove_all_infected_WI lv q k i :
  hoare (WI lv q) (let* c := get_cell k i in host_remove_infected k i (cI c)) (fun _ w => WI lv q w).
Proof.
  intros w t a w' t' HW H. binv.
  eapply host_remove_infected_WI; [exact HW| |eassumption].
  intros h' c' Hk' Hi'. destruct (same_cell _ _ _ _ _ _ _ Hk Hi Hk' Hi') as (-> & ->).
  pose proof (Inv0_I_nonneg _ (cinv_Inv0 _ _ (winv_cell _ _ _ _ _ _ (proj1 HW) Hk Hi))). lia.
Qed.

Lemma host_remove_by_ratio_WI lv q k i ratio : (0 <= ratio <= 1)%Q ->
  hoare (WI lv q) (host_remove_by_ratio k i ratio) (fun _ w => WI lv q w).
Proof.
  intros Hr w t a w' t' HW H. unfold host_remove_by_ratio in H. binv.
  match goal with E1 : host_remove_infected _ _ _ _ _ = Ok (_, ?s1, _) |- _ =>
    assert (HW1 : WI lv q s1) end.
  { eapply host_remove_infected_WI; [exact HW| |eassumption].
    intros h' c' Hk' Hi'. destruct (same_cell _ _ _ _ _ _ _ Hk0 Hi0 Hk' Hi') as (-> & ->).
    apply ratio_removed_bounds; [|assumption].
    apply (Inv0_I_nonneg _ (cinv_Inv0 _ _ (winv_cell _ _ _ _ _ _ (proj1 HW) Hk0 Hi0))). }
  eapply host_remove_exposed_WI; [exact HW1| |eassumption].
  intros h' c' Hk' Hi'. destruct (same_cell _ _ _ _ _ _ _ Hk Hi Hk' Hi') as (-> & ->).
  apply ratio_removed_bounds; [|assumption].
  apply (Inv0_TE_nonneg _ (cinv_Inv0 _ _ (winv_cell _ _ _ _ _ _ (proj1 HW1) Hk Hi))).
Qed.

(* ---- loops over hosts and suitable cells ---- *)
Lemma all_hosts_WI lv q (f : nat -> W unit) :
  (forall j, hoare (WI lv q) (f j) (fun _ w => WI lv q w)) ->
  hoare (WI lv q) (all_hosts f) (fun _ w => WI lv q w).
Proof.
  intros Hf. unfold all_hosts. eapply hoare_bind; [apply hoare_ro, ro_num_hosts|].
  intros n. apply hoare_for_hosts. exact Hf.
Qed.

Lemma for_suitable_WI lv q g (f : Z -> Z -> nat -> W unit) :
  (forall r c i, hoare (WI lv q) (f r c i) (fun _ w => WI lv q w)) ->
  hoare (WI lv q) (for_suitable g f) (fun _ w => WI lv q w).
Proof.
  intros Hf. unfold for_suitable. eapply hoare_bind; [apply hoare_ro, ro_suitable_cells|].
  intros cells. apply hoare_mfold. intros rc _.
  eapply hoare_bind; [apply hoare_ro, ro_lift|]. intros i. apply Hf.
Qed.

(* RemoveByTemperature *)
Theorem act_lethal_WI lv q g : hoare (WI lv q) (act_lethal g) (fun _ w => WI lv q w).
Proof.
  unfold act_lethal. apply for_suitable_WI. intros r c i.
  eapply hoare_bind; [apply hoare_ro, ro_temperature_at|]. intros temp.
  apply hoare_if; intros _.
  - apply all_hosts_WI. intros k. apply remove_all_infected_WI.
  - apply hoare_ro, ro_ret.
Qed.

(* survival rate, for rates within [0, 1] *)
Definition rates_ok (rates : list Q) : Prop := Forall (fun r => (0 <= r <= 1)%Q) rates.

Theorem act_survival_WI lv q g rates : rates_ok rates ->
  hoare (WI lv q) (act_survival g rates) (fun _ w => WI lv q w).
Proof.
  intros Hr. unfold act_survival. apply for_suitable_WI. intros r c i.
  intros w t a w' t' HW H. binv.
  match goal with E : rget rates i = Ok ?x |- _ =>
    apply rget_Some in E; assert (Hx : (0 <= x <= 1)%Q)
      by (unfold rates_ok in Hr; rewrite Forall_forall in Hr; apply Hr; eapply nth_error_In; eauto) end.
  match goal with H0 : (if ?b then _ else _) _ _ = Ok _ |- _ => destruct b end.
  - revert HW H. apply all_hosts_WI. intros k. apply host_remove_by_ratio_WI. assumption.
  - binv. assumption.
Qed.

(* ---------- computations that leave the host rasters alone ---------- *)
Definition hosts_same {A} (m : W A) : Prop :=
  forall w t a w' t', m w t = Ok (a, w', t') -> w_hosts w' = w_hosts w.

Lemma hs_ro {A} (m : W A) : read_only m -> hosts_same m.
Proof. intros H w t a w' t' E. apply H in E. subst. reflexivity. Qed.
Lemma hs_bind {A B} (m : W A) (f : A -> W B) :
  hosts_same m -> (forall a, hosts_same (f a)) -> hosts_same (mbind m f).
Proof.
  intros Hm Hf w t x w' t' H. apply bind_inv in H as (a & s1 & t1 & E1 & E2).
  apply Hm in E1. apply Hf in E2. congruence.
Qed.
Lemma hs_mrepeat (m : W unit) n : hosts_same m -> hosts_same (mrepeat n m).
Proof.
  intros Hm. induction n as [|n IH]; cbn [mrepeat]; [apply hs_ro, ro_ret|].
  apply hs_bind; [exact Hm|intros _; exact IH].
Qed.
Lemma hs_mfold {A} (f : A -> W unit) l : (forall a, hosts_same (f a)) -> hosts_same (mfold f l).
Proof.
  intros Hf. induction l as [|a r IH]; cbn [mfold]; [apply hs_ro, ro_ret|].
  apply hs_bind; [apply Hf|intros _; exact IH].
Qed.
Lemma hoare_hs {A} (m : W A) lv q : hosts_same m -> hoare (WI lv q) m (fun _ w => WI lv q w).
Proof. intros Hm w t a w' t' HW E. apply Hm in E. unfold WI, winv, whq in *. rewrite E. exact HW. Qed.

Lemma hs_set_raster_at sel upd i v :
  (forall w r, w_hosts (upd w r) = w_hosts w) -> hosts_same (set_raster_at sel upd i v).
Proof. intros Hu w t a w' t' H. unfold set_raster_at in H. binv. apply Hu. Qed.

Lemma hs_soil_disperser_to g i : hosts_same (soil_disperser_to g i).
Proof. intros w t a w' t' H. unfold soil_disperser_to in H. binv'; reflexivity. Qed.

Lemma hs_soil_dispersers_from g i : hosts_same (soil_dispersers_from g i).
Proof. intros w t a w' t' H. unfold soil_dispersers_from in H. binv'; reflexivity. Qed.

Lemma ro_multi_dispersers_from g i : read_only (multi_dispersers_from g i).
Proof.
  unfold multi_dispersers_from. apply ro_bind; [apply ro_num_hosts|]. intros n.
  match goal with |- read_only (?F 0%nat n 0) =>
    assert (HF : forall m k acc, read_only (F k m acc)); [|apply HF] end.
  induction m as [|m IH]; intros k acc; [apply ro_ret|].
  ro; try apply ro_get_cell; try apply ro_host_dispersers_from; apply IH.
Qed.

Lemma hs_for_suitable g (f : Z -> Z -> nat -> W unit) :
  (forall r c i, hosts_same (f r c i)) -> hosts_same (for_suitable g f).
Proof.
  intros Hf. unfold for_suitable. apply hs_bind; [apply hs_ro, ro_suitable_cells|].
  intros cells. apply hs_mfold. intros rc. apply hs_bind; [apply hs_ro, ro_lift|]. intros i. apply Hf.
Qed.

(* SpreadAction::generate does not touch the hosts *)
Theorem act_generate_hosts_same g : hosts_same (act_generate g).
Proof.
  unfold act_generate. apply hs_for_suitable. intros r c i.
  apply hs_bind; [apply hs_ro, ro_multi_dispersers_from|]. intros d.
  destruct (d >? 0).
  - apply hs_bind; [apply hs_ro, ro_get|]. intros w0.
    apply hs_bind.
    + destruct (w_soil w0); [|apply hs_ro, ro_ret].
      apply hs_bind; [apply hs_mrepeat, hs_soil_disperser_to|]. intros _. apply hs_ro, ro_ret.
    + intros d'. apply hs_bind; [apply hs_set_raster_at; reflexivity|]. intros _. apply hs_set_raster_at; reflexivity.
  - apply hs_bind; [apply hs_set_raster_at; reflexivity|]. intros _. apply hs_set_raster_at; reflexivity.
Qed.

(* ---- SpreadAction::disperse ---- *)
Lemma one_disperser_WI lv q g ri ci i : hoare (WI lv q) (one_disperser g ri ci i) (fun _ w => WI lv q w).
Proof.
  intros w t a w' t' HW H. unfold one_disperser in H. binv'; try assumption.
  all: try (unfold WI, winv, whq in *; cbn [upd_outside w_hosts]; assumption).
  all: try by_hoare multi_disperser_to_WI.
  all: match goal with E : multi_disperser_to _ _ _ _ = Ok (_, ?s1, _) |- _ =>
      assert (HW1 : WI lv q s1) by (by_hoare multi_disperser_to_WI) end.
  all: match goal with E : set_raster_at _ _ _ _ _ _ = Ok _ |- _ =>
      apply (hs_set_raster_at w_estab upd_estab) in E; [|reflexivity] end.
  all: unfold WI, winv, whq in *; congruence.
Qed.

Theorem act_disperse_WI lv q g : hoare (WI lv q) (act_disperse g) (fun _ w => WI lv q w).
Proof.
  unfold act_disperse. apply for_suitable_WI. intros r c i.
  eapply hoare_bind; [apply hoare_ro, ro_get|]. intros w0.
  eapply hoare_bind; [apply hoare_ro, ro_lift|]. intros d.
  eapply hoare_bind; [apply hoare_mrepeat, one_disperser_WI|]. intros ?u.
  destruct (w_soil w0); [|apply hoare_ro, ro_ret].
  eapply hoare_bind; [apply hoare_hs, hs_soil_dispersers_from|]. intros n.
  apply hoare_mrepeat. eapply hoare_bind; [apply multi_disperser_to_WI|]. intros ?u. apply hoare_ro, ro_ret.
Qed.

(* ---------- replacing a whole host ---------- *)
Lemma replace_host P hs k h h' hs' :
  hosts_inv P hs -> nth_error hs k = Some h -> rset hs k h' = Ok hs' -> Forall P (hp_cells h') ->
  hosts_inv P hs' /\ hosts_hq hs' = hosts_hq hs - sum_hq (hp_cells h) + sum_hq (hp_cells h').
Proof.
  intros HI Hk R Ph.
  destruct (rset_spec _ _ _ _ R) as (pre & old & post & -> & -> & L).
  rewrite <- L, nth_error_mid in Hk. injection Hk as ->.
  unfold hosts_inv in *. apply Forall_app in HI as [HA HB]. inversion HB as [|? ? _ HB']; subst.
  split; [apply Forall_app; split; [assumption|constructor; assumption]|].
  rewrite !hosts_hq_app. cbn [hosts_hq]. lia.
Qed.

Lemma set_host_WI lv q k h h' w t u w' t' delta :
  WI lv q w -> nth_error (w_hosts w) k = Some h -> Forall (cinv lv) (hp_cells h') ->
  sum_hq (hp_cells h') = sum_hq (hp_cells h) - delta ->
  set_host k h' w t = Ok (u, w', t') -> WI lv (q - delta) w'.
Proof.
  intros [HI Hq] Hk Ph Hs H. apply set_host_inv in H as (_ & hs & R & ->).
  destruct (replace_host _ _ _ _ _ _ HI Hk R Ph) as (A & B).
  unfold WI, winv, whq, with_hosts; cbn [w_hosts]. split; [assumption|]. unfold whq in Hq. lia.
Qed.

(* mapping a partial function over the cells of a host *)
Lemma map_result_spec (F : cell -> result cell) : forall l l',
  fold_right (fun c acc => do a <- acc; do c' <- F c; Ok (c' :: a)) (Ok []) l = Ok l' ->
  Forall2 (fun c c' => F c = Ok c') l l'.
Proof.
  induction l as [|c r IH]; intros l' H; cbn [fold_right] in H.
  - injection H as <-. constructor.
  - destruct (fold_right _ _ r) as [a|] eqn:E; [|discriminate]. cbn [bind] in H.
    destruct (F c) as [c'|] eqn:Ec; [|discriminate]. cbn [bind] in H. injection H as <-.
    constructor; [assumption|apply IH; reflexivity].
Qed.

Lemma Forall2_cells lv (R : cell -> cell -> Prop) l l' :
  (forall c c', cinv lv c -> R c c' -> cinv lv c' /\ hq c' = hq c) ->
  Forall2 R l l' -> Forall (cinv lv) l -> Forall (cinv lv) l' /\ sum_hq l' = sum_hq l.
Proof.
  intros HR H. induction H as [|c c' r r' Hc Hr IH]; intros HF; [split; [constructor|reflexivity]|].
  inversion HF as [|? ? Pc Pr]; subst. destruct (HR _ _ Pc Hc) as (A & B). destruct (IH Pr) as (C & D).
  split; [constructor; assumption|]. cbn [sum_hq]. lia.
Qed.

Lemma winv_host P w k h : winv P w -> nth_error (w_hosts w) k = Some h -> Forall P (hp_cells h).
Proof.
  intros HI Hk. unfold winv, hosts_inv in HI. rewrite Forall_forall in HI. apply HI. eapply nth_error_In; eauto.
Qed.

(* host_pool.step_forward(step) *)
Theorem act_step_forward_WI lv q g step : hoare (WI lv q) (act_step_forward g step) (fun _ w => WI lv q w).
Proof.
  unfold act_step_forward. apply all_hosts_WI. intros k w t a w' t' HW H. binv.
  match goal with E : get_host _ _ _ = Ok _ |- _ => apply get_host_inv in E as (-> & -> & Hk) end.
  match goal with E : fold_right _ _ _ = Ok _ |- _ => apply map_result_spec in E; rename E into HF end.
  destruct (Forall2_cells lv _ _ _ (fun c c' Pc Hc =>
     let '(conj I0 (conj Hq (conj IM (conj IL _)))) := step_forward_spec _ _ _ _ _ (cinv_Inv0 _ _ Pc) Hc in
     conj (cinv_intro _ _ _ Pc I0 IM IL) Hq) HF (winv_host _ _ _ _ (proj1 HW) Hk)) as (A & B).
  replace q with (q - 0) by lia.
  eapply (set_host_WI lv q k _ (mkhp _ _)); [exact HW|exact Hk|cbn [hp_cells]; exact A| |eassumption].
  cbn [hp_cells]. lia.
Qed.

(* SoilPool::next_step *)
Lemma act_soil_next_WI lv q w : WI lv q w -> WI lv q (act_soil_next w).
Proof. unfold act_soil_next. destruct (w_soil w); auto. Qed.

(* ---- mortality ---- *)
Definition pht_ok (h : hostcfg) : Prop :=
  match h_pht h with
  | Some (_, rate, lag) => (0 <= rate <= 1)%Q /\ 0 <= lag
  | None => True
  end.
Definition cfg_ok (g : config) : Prop :=
  Forall pht_ok (g_hosts g) /\ (0 <= g_leaving_pct g <= 1)%Q.

Lemma host_cfg_ok g k w t hc w' t' : cfg_ok g -> host_cfg g k w t = Ok (hc, w', t') -> pht_ok hc /\ w' = w.
Proof.
  intros [Hg _] H. unfold host_cfg in H. apply lift_inv in H as (R & -> & _). apply rget_Some in R.
  split; [|reflexivity]. rewrite Forall_forall in Hg. apply Hg. eapply nth_error_In; eauto.
Qed.

Theorem act_mortality_WI lv q g : cfg_ok g -> hoare (WI lv q) (act_mortality g) (fun _ w => WI lv q w).
Proof.
  intros Hg. unfold act_mortality. eapply hoare_bind.
  - apply for_suitable_WI. intros r c i. apply all_hosts_WI. intros k w t a w' t' HW H.
    apply bind_inv in H as (hc & s1 & t1 & E & H). apply (host_cfg_ok _ _ _ _ _ _ _ Hg) in E as (Hp & ->).
    unfold pht_ok in Hp. destruct (h_pht hc) as [[[sus rate] lag]|]; [|discriminate].
    destruct Hp as (Hr & Hl). binv.
    match goal with Hm : apply_mortality ?c0 _ _ = Ok ?c', Hs : set_cell _ _ _ _ _ = Ok _ |- _ =>
      pose proof (winv_cell _ _ _ _ _ _ (proj1 HW) Hk Hi) as Pc;
      destruct (apply_mortality_Inv0 _ _ _ _ (cinv_Inv0 _ _ Pc) Hr Hl Hm) as (I0 & Hq & _ & _ & _ & _ & _ & _ & _ & IM);
      assert (Pc' : cinv lv c') end.
    { split; [assumption|]. destruct lv; [exact I| |apply IM; apply Pc].
      destruct Pc as [P0 PL]. match goal with Hm : apply_mortality _ _ _ = Ok _ |- _ =>
        exact (proj1 (proj2 (proj2 (apply_mortality_spec _ _ _ _ P0 PL Hr Hl Hm)))) end. }
    match goal with Hs : set_cell _ _ ?c' _ _ = Ok _ |- _ =>
      destruct (update_cell_WI lv q k i _ c' 0 _ _ _ _ _ _ HW Hk Hi Pc' ltac:(lia) Hs) as (A & _) end.
    replace (q - 0) with q in A by lia. exact A.
  - intros u. apply all_hosts_WI. intros k w t a w' t' HW H. binv.
    match goal with E : get_host _ _ _ = Ok _ |- _ => apply get_host_inv in E as (-> & -> & Hk) end.
    replace q with (q - 0) by lia. eapply (set_host_WI lv q k _ (mkhp _ _)); [exact HW|exact Hk| | |eassumption]; cbn [hp_cells].
    + pose proof (winv_host _ _ _ _ (proj1 HW) Hk) as HF. clear - HF.
      induction HF as [|c r Pc _ IH]; cbn [map]; constructor; [|exact IH].
      destruct (rotate_mortality_spec c (cinv_Inv0 _ _ Pc)) as (I0 & _ & IM & IL & _).
      exact (cinv_intro _ _ _ Pc I0 IM IL).
    + pose proof (winv_host _ _ _ _ (proj1 HW) Hk) as HF. clear - HF.
      induction HF as [|c r Pc _ IH]; cbn [map sum_hq]; [lia|].
      destruct (rotate_mortality_spec c (cinv_Inv0 _ _ Pc)) as (_ & Hq & _). lia.
Qed.
