(* Proofs about the raster algebra of RasterDefs.v (part 1 of the model).
   The ownership state machine is treated in RasterOwnProps.v. *)
From Coq Require Import ZArith QArith Qround List Bool Lia ZifyBool.
From Pops Require Import Err RasterDefs.
Import ListNotations.
Local Open Scope Z_scope.
Ltac Zify.zify_post_hook ::= Z.to_euclidean_division_equations.

(* ------------------------------------------------------------------------- *)
(* Numbers                                                                   *)
(* ------------------------------------------------------------------------- *)

(* two cells hold the same value *)
Definition num_eq (x y : num) : Prop := (to_q x == to_q y)%Q.

Lemma num_eqb_spec x y : num_eqb x y = true <-> num_eq x y.
Proof.
  unfold num_eq. destruct x as [a|p], y as [b|q]; cbn [num_eqb to_q];
    try apply Qeq_bool_iff.
  unfold Qeq, inject_Z; cbn [Qnum Qden]. lia.
Qed.

Lemma num_eq_int a b : num_eq (NI a) (NI b) <-> a = b.
Proof. unfold num_eq, Qeq, inject_Z; cbn. lia. Qed.

Lemma num_eq_refl x : num_eq x x.
Proof. unfold num_eq. reflexivity. Qed.

Lemma qtrunc_comp p q : (p == q)%Q -> qtrunc p = qtrunc q.
Proof.
  intros H. unfold qtrunc.
  assert (S : (Qnum p <? 0) = (Qnum q <? 0)).
  { unfold Qeq in H. destruct p as [a b], q as [c d]; cbn in *.
    destruct (a <? 0) eqn:A, (c <? 0) eqn:C; try reflexivity; nia. }
  rewrite S. destruct (Qnum q <? 0); [unfold Qceiling|]; rewrite H; reflexivity.
Qed.

Lemma qtrunc_Z z : qtrunc (inject_Z z) = z.
Proof. unfold qtrunc. cbn. destruct (z <? 0); [apply Qceiling_Z| apply Qfloor_Z]. Qed.

(* truncation is the integer part toward zero *)
Lemma qtrunc_quot n d : qtrunc (n # d) = Z.quot n (Zpos d).
Proof.
  unfold qtrunc, Qceiling, Qfloor; cbn [Qnum Qden Qopp].
  destruct (n <? 0) eqn:E; nia.
Qed.

Lemma qtrunc_div z f : qtrunc (inject_Z z / inject_Z f) = Z.quot z f.
Proof.
  unfold qtrunc, Qceiling, Qfloor, Qdiv, Qmult, Qinv, inject_Z. cbn [Qnum Qden].
  destruct f as [|p|p]; cbn [Qnum Qden Qopp].
  - rewrite Z.mul_0_r. cbn. destruct z; reflexivity.
  - rewrite Z.mul_1_r, Pos.mul_1_l. destruct (z <? 0) eqn:E; nia.
  - rewrite Pos.mul_1_l. destruct (z * -1 <? 0) eqn:E; nia.
Qed.

Lemma ty_conv t n : ty_of (conv t n) = t.
Proof. destruct t, n; reflexivity. Qed.

Lemma ty_arith o x y : ty_of (arith o x y) = common_ty (ty_of x) (ty_of y).
Proof. destruct x, y; reflexivity. Qed.

Lemma ty_cell_rs_asg o t x s : ty_of x = t -> ty_of (cell_rs_asg o t x s) = t.
Proof.
  intros H. unfold cell_rs_asg. destruct t, s; try apply ty_conv.
  destruct x; [reflexivity|discriminate].
Qed.

(* What the conversions amount to, spelled out for the mixed cases. *)
Lemma cell_rs_int_int o a b : cell_rs o TInt (NI a) (NI b) = NI (zop o a b).
Proof. reflexivity. Qed.
Lemma cell_rs_int_dbl o a q : cell_rs o TInt (NI a) (ND q) = NI (qtrunc (qop o (inject_Z a) q)).
Proof. reflexivity. Qed.
Lemma cell_rs_dbl_int o p b : cell_rs o TDbl (ND p) (NI b) = ND (qop o p (inject_Z b)).
Proof. reflexivity. Qed.
Lemma cell_rs_dbl_dbl o p q : cell_rs o TDbl (ND p) (ND q) = ND (qop o p q).
Proof. reflexivity. Qed.
Lemma cell_rs_asg_int_dbl o a q : cell_rs_asg o TInt (NI a) (ND q) = NI (zop o a (Qfloor q)).
Proof. reflexivity. Qed.
Lemma cell_rs_asg_other o t x s :
  (t = TDbl \/ exists b, s = NI b) -> cell_rs_asg o t x s = cell_rs o t x s.
Proof. intros [->|(b & ->)]; [reflexivity|]. destruct t; reflexivity. Qed.
Lemma cell_sr_int_dbl_sub a q : cell_sr Sub TInt (ND q) (NI a) = NI (qtrunc (q - inject_Z a)).
Proof. reflexivity. Qed.

(* a floating scalar that holds an integer value *)
Definition integral (s : num) : Prop :=
  match s with NI _ => True | ND q => (q == inject_Z (Qfloor q))%Q end.

Lemma qop_comp o a b b' : (b == b')%Q -> (qop o a b == qop o a b')%Q.
Proof. intros H. destruct o; cbn [qop]; rewrite H; reflexivity. Qed.

Lemma qop_inject o a b : o <> Div -> (qop o (inject_Z a) (inject_Z b) == inject_Z (zop o a b))%Q.
Proof.
  intros H. destruct o; cbn [qop zop]; try congruence.
  - rewrite inject_Z_plus. reflexivity.
  - unfold Qminus. rewrite <- inject_Z_opp, <- inject_Z_plus. reflexivity.
  - rewrite inject_Z_mult. reflexivity.
Qed.

Lemma compound_cell_agrees_when_integral o a q :
  (q == inject_Z (Qfloor q))%Q ->
  cell_rs_asg o TInt (NI a) (ND q) = cell_rs o TInt (NI a) (ND q).
Proof.
  intros H. rewrite cell_rs_asg_int_dbl, cell_rs_int_dbl. f_equal.
  rewrite (qtrunc_comp _ _ (qop_comp o (inject_Z a) _ _ H)).
  destruct o.
  1-3: match goal with |- zop ?o _ _ = _ =>
         assert (N : o <> Div) by discriminate;
         rewrite (qtrunc_comp _ _ (qop_inject o a (Qfloor q) N)); rewrite qtrunc_Z; reflexivity
       end.
  cbn [qop zop]. rewrite qtrunc_div. reflexivity.
Qed.

(* ------------------------------------------------------------------------- *)
(* The loops                                                                 *)
(* ------------------------------------------------------------------------- *)

Lemma loop1_firstn f : forall n xs, (n <= length xs)%nat ->
  loop1 f n xs = Ok (map f (firstn n xs)).
Proof.
  induction n as [|n IH]; intros xs H; cbn [loop1 firstn map]; [reflexivity|].
  destruct xs as [|x xs]; cbn in *; [lia|].
  rewrite IH by lia. reflexivity.
Qed.

Lemma loop1_all f n xs : length xs = n -> loop1 f n xs = Ok (map f xs).
Proof. intros <-. rewrite loop1_firstn by lia. rewrite firstn_all. reflexivity. Qed.

Lemma loop1_short f : forall n xs, (length xs < n)%nat -> loop1 f n xs = Err UB_OutOfBounds.
Proof.
  induction n as [|n IH]; intros xs H; [lia|]. cbn [loop1].
  destruct xs as [|x xs]; [reflexivity|]. cbn in H. rewrite IH by lia. reflexivity.
Qed.

Definition zipw (f : num -> num -> num) (xs ys : list num) : list num :=
  map (fun p => f (fst p) (snd p)) (combine xs ys).

Lemma loop2_firstn f : forall n xs ys, (n <= length xs)%nat -> (n <= length ys)%nat ->
  loop2 f n xs ys = Ok (zipw f (firstn n xs) (firstn n ys)).
Proof.
  induction n as [|n IH]; intros xs ys Hx Hy; cbn [loop2 firstn]; [reflexivity|].
  destruct xs as [|x xs]; cbn in Hx; [lia|].
  destruct ys as [|y ys]; cbn in Hy; [lia|].
  rewrite IH by lia. reflexivity.
Qed.

Lemma loop2_all f n xs ys : length xs = n -> length ys = n ->
  loop2 f n xs ys = Ok (zipw f xs ys).
Proof.
  intros Hx Hy. rewrite loop2_firstn by lia.
  rewrite <- Hx at 1. rewrite <- Hy. rewrite !firstn_all. reflexivity.
Qed.

Lemma loop2_short f : forall n xs ys, (n <= length xs)%nat -> (length ys < n)%nat ->
  loop2 f n xs ys = Err UB_OutOfBounds.
Proof.
  induction n as [|n IH]; intros xs ys Hx Hy; [lia|]. cbn [loop2].
  destruct xs as [|x xs]; [reflexivity|]. destruct ys as [|y ys]; [reflexivity|].
  cbn in Hx, Hy. rewrite IH by lia. reflexivity.
Qed.

Lemma zipw_length f xs ys : length xs = length ys -> length (zipw f xs ys) = length xs.
Proof. intros H. unfold zipw. rewrite map_length, combine_length. lia. Qed.

Lemma zipw_nth f : forall xs ys k,
  nth_error (zipw f xs ys) k =
  match nth_error xs k, nth_error ys k with
  | Some x, Some y => Some (f x y)
  | _, _ => None
  end.
Proof.
  induction xs as [|x xs IH]; intros ys k.
  - destruct k; reflexivity.
  - destruct ys as [|y ys].
    + destruct k; cbn; [reflexivity|]. destruct (nth_error xs k); reflexivity.
    + destruct k; cbn; [reflexivity|]. apply IH.
Qed.

Lemma zipw_Forall f (P : num -> Prop) xs ys :
  (forall x y, In x xs -> In y ys -> P (f x y)) -> Forall P (zipw f xs ys).
Proof.
  intros H. unfold zipw. apply Forall_forall. intros z Hz.
  apply in_map_iff in Hz. destruct Hz as ([x y] & <- & Hin).
  cbn. apply H; [eapply in_combine_l|eapply in_combine_r]; eassumption.
Qed.

Lemma map_Forall (f : num -> num) (P : num -> Prop) xs :
  (forall x, In x xs -> P (f x)) -> Forall P (map f xs).
Proof.
  intros H. apply Forall_forall. intros z Hz. apply in_map_iff in Hz.
  destruct Hz as (x & <- & Hin). auto.
Qed.

Lemma map_nth_opt (f : num -> num) : forall xs k,
  nth_error (map f xs) k = option_map f (nth_error xs k).
Proof. induction xs as [|x xs IH]; intros [|k]; cbn; auto. Qed.

(* ------------------------------------------------------------------------- *)
(* Shapes                                                                    *)
(* ------------------------------------------------------------------------- *)

Lemma same_shape_true a b : same_shape a b = true <-> rrows a = rrows b /\ rcols a = rcols b.
Proof. unfold same_shape. lia. Qed.

Lemma same_shape_false a b : same_shape a b = false <-> rrows a <> rrows b \/ rcols a <> rcols b.
Proof. unfold same_shape. lia. Qed.

Lemma same_shape_ncells a b : same_shape a b = true -> ncells a = ncells b.
Proof. intros H. apply same_shape_true in H. unfold ncells. destruct H as [-> ->]. reflexivity. Qed.

Lemma wf_mk r c t cs : 0 <= r -> 0 <= c -> length cs = Z.to_nat (c * r) ->
  Forall (fun x => ty_of x = t) cs -> wf (mkr r c t cs).
Proof. intros. unfold wf, ncells; cbn. auto. Qed.

(* ------------------------------------------------------------------------- *)
(* Element-wise characterisation of every operator                           *)
(* ------------------------------------------------------------------------- *)

Theorem rr_bin_spec o a b : wf a -> wf b ->
  (same_shape a b = true ->
     exists c, rr_bin o a b = Ok (c, a, b) /\ wf c /\
       rrows c = rrows a /\ rcols c = rcols a /\ rty c = common_ty (rty a) (rty b) /\
       forall k, nth_error (rcells c) k =
                 match nth_error (rcells a) k, nth_error (rcells b) k with
                 | Some x, Some y => Some (cell_rr o x y)
                 | _, _ => None
                 end) /\
  (same_shape a b = false -> rr_bin o a b = Err InvalidArgument).
Proof.
  intros (Ra & Ca & La & Ta) (Rb & Cb & Lb & Tb). unfold rr_bin. split; intros S; rewrite S; [|reflexivity].
  pose proof (same_shape_ncells _ _ S) as N.
  rewrite loop2_all by congruence. cbn [bind].
  eexists. split; [reflexivity|]. split; [|cbn; repeat split; try reflexivity; apply zipw_nth].
  apply wf_mk; try assumption.
  - rewrite zipw_length by congruence. exact La.
  - apply zipw_Forall. intros x y Hx Hy. unfold cell_rr. rewrite ty_arith.
    rewrite Forall_forall in Ta, Tb. rewrite (Ta _ Hx), (Tb _ Hy). reflexivity.
Qed.

(* one statement for the four loops over a single raster *)
Lemma loop1_raster_spec (f : num -> num) a : wf a ->
  (forall x, ty_of x = rty a -> ty_of (f x) = rty a) ->
  exists cs, loop1 f (ncells a) (rcells a) = Ok cs /\ cs = map f (rcells a) /\
             wf (mkr (rrows a) (rcols a) (rty a) cs).
Proof.
  intros (Ra & Ca & La & Ta) Hf. rewrite loop1_all by exact La.
  eexists. split; [reflexivity|]. split; [reflexivity|].
  apply wf_mk; try assumption.
  - rewrite map_length. exact La.
  - apply map_Forall. intros x Hx. apply Hf. rewrite Forall_forall in Ta. auto.
Qed.

Theorem rs_bin_spec o a s : wf a ->
  exists c, rs_bin o a s = Ok (c, a) /\ wf c /\
    rrows c = rrows a /\ rcols c = rcols a /\ rty c = rty a /\
    rcells c = map (fun x => cell_rs o (rty a) x s) (rcells a).
Proof.
  intros W. unfold rs_bin.
  destruct (loop1_raster_spec (fun x => cell_rs o (rty a) x s) a W) as (cs & -> & E & Wc).
  { intros x _. apply ty_conv. }
  cbn [bind]. eexists. split; [reflexivity|]. cbn. auto.
Qed.

Theorem sr_bin_spec o s a : wf a ->
  exists c, sr_bin o s a = Ok (c, a) /\ wf c /\
    rrows c = rrows a /\ rcols c = rcols a /\ rty c = rty a /\
    rcells c = map (fun x => cell_sr o (rty a) s x) (rcells a).
Proof.
  intros W. unfold sr_bin.
  destruct (loop1_raster_spec (fun x => cell_sr o (rty a) s x) a W) as (cs & -> & E & Wc).
  { intros x _. destruct o; apply ty_conv. }
  cbn [bind]. eexists. split; [reflexivity|]. cbn. auto.
Qed.

Theorem rs_asg_spec o a s : wf a ->
  exists a', rs_asg o a s = Ok a' /\ wf a' /\
    rrows a' = rrows a /\ rcols a' = rcols a /\ rty a' = rty a /\
    rcells a' = map (fun x => cell_rs_asg o (rty a) x s) (rcells a).
Proof.
  intros W. unfold rs_asg.
  destruct (loop1_raster_spec (fun x => cell_rs_asg o (rty a) x s) a W) as (cs & -> & E & Wc).
  { intros x Hx. apply ty_cell_rs_asg. exact Hx. }
  cbn [bind]. eexists. split; [reflexivity|]. cbn. auto.
Qed.

Theorem rr_asg_spec o a b : wf a -> wf b ->
  (same_shape a b = true ->
     exists a', rr_asg o a b = Ok (a', b) /\ wf a' /\
       rrows a' = rrows a /\ rcols a' = rcols a /\ rty a' = rty a /\
       forall k, nth_error (rcells a') k =
                 match nth_error (rcells a) k, nth_error (rcells b) k with
                 | Some x, Some y => Some (cell_rr_asg o (rty a) x y)
                 | _, _ => None
                 end) /\
  (same_shape a b = false -> rr_asg o a b = Err InvalidArgument).
Proof.
  intros (Ra & Ca & La & Ta) (Rb & Cb & Lb & Tb). unfold rr_asg, rr_asg_loop.
  split; intros S; rewrite S; [|reflexivity].
  pose proof (same_shape_ncells _ _ S) as N.
  rewrite loop2_all by congruence. cbn [bind].
  eexists. split; [reflexivity|]. split; [|cbn; repeat split; try reflexivity; apply zipw_nth].
  apply wf_mk; try assumption.
  - rewrite zipw_length by congruence. exact La.
  - apply zipw_Forall. intros x y _ _. apply ty_conv.
Qed.

Lemma rcopy_spec a : wf a -> rcopy a = Ok a.
Proof.
  intros (Ra & Ca & La & Ta). unfold rcopy. rewrite loop1_all by exact La. cbn [bind].
  rewrite map_id. destruct a; reflexivity.
Qed.

Lemma rmap_spec f a : wf a -> (forall x, ty_of x = rty a -> ty_of (f x) = rty a) ->
  exists c, rmap f a = Ok c /\ wf c /\ rrows c = rrows a /\ rcols c = rcols a /\ rty c = rty a /\
            rcells c = map f (rcells a).
Proof.
  intros W Hf. unfold rmap. destruct (loop1_raster_spec f a W Hf) as (cs & -> & E & Wc).
  cbn [bind]. eexists. split; [reflexivity|]. cbn. auto.
Qed.

Theorem rpow_spec a e : wf a ->
  exists c, rpow a e = Ok (c, a) /\ wf c /\
    rrows c = rrows a /\ rcols c = rcols a /\ rty c = rty a /\
    rcells c = map (cell_pow (rty a) e) (rcells a).
Proof.
  intros W. unfold rpow. rewrite rcopy_spec by exact W. cbn [bind].
  destruct (rmap_spec (cell_pow (rty a) e) a W) as (c & -> & H).
  { intros x _. apply ty_conv. }
  cbn [bind]. eauto.
Qed.

Theorem rsqrt_spec a : wf a ->
  exists c, rsqrt a = Ok (c, a) /\ wf c /\
    rrows c = rrows a /\ rcols c = rcols a /\ rty c = rty a /\
    rcells c = map (cell_sqrt (rty a)) (rcells a).
Proof.
  intros W. unfold rsqrt. rewrite rcopy_spec by exact W. cbn [bind].
  destruct (rmap_spec (cell_sqrt (rty a)) a W) as (c & -> & H).
  { intros x _. apply ty_conv. }
  cbn [bind]. eauto.
Qed.

(* the code before the repair returned the right cells but had overwritten
   its const argument with them *)
Theorem rpow_legacy_spec a e : wf a ->
  exists c, rpow_legacy a e = Ok (c, c) /\
    rcells c = map (cell_pow (rty a) e) (rcells a).
Proof.
  intros W. unfold rpow_legacy.
  destruct (rmap_spec (cell_pow (rty a) e) a W) as (c & -> & Wc & _ & _ & _ & E).
  { intros x _. apply ty_conv. }
  cbn [bind]. rewrite rcopy_spec by exact Wc. cbn [bind]. eauto.
Qed.

Theorem rsqrt_legacy_spec a : wf a ->
  exists c, rsqrt_legacy a = Ok (c, c) /\
    rcells c = map (cell_sqrt (rty a)) (rcells a).
Proof.
  intros W. unfold rsqrt_legacy.
  destruct (rmap_spec (cell_sqrt (rty a)) a W) as (c & -> & Wc & _ & _ & _ & E).
  { intros x _. apply ty_conv. }
  cbn [bind]. rewrite rcopy_spec by exact Wc. cbn [bind]. eauto.
Qed.

(* sqrt of an int cell is the integer square root *)
Lemma cell_sqrt_int a : cell_sqrt TInt (NI a) = NI (Z.sqrt a).
Proof.
  unfold cell_sqrt, qsqrt. cbn [to_q conv].
  assert (R : Qred (inject_Z a) = inject_Z a).
  { unfold inject_Z, Qred.
    pose proof (Z.ggcd_gcd a 1) as G. pose proof (Z.ggcd_correct_divisors a 1) as D.
    destruct (Z.ggcd a 1) as (g & aa & bb). cbn [fst snd] in *. rewrite Z.gcd_1_r in G. subst g.
    destruct D as [D1 D2]. rewrite Z.mul_1_l in D1, D2. subst. reflexivity. }
  rewrite R. cbn [inject_Z Qnum Qden]. f_equal. apply qtrunc_Z.
Qed.

(* ------------------------------------------------------------------------- *)
(* Operands that are not assigned to are unchanged                           *)
(* ------------------------------------------------------------------------- *)

Ltac bind_inv H :=
  match type of H with
  | bind ?r _ = Ok _ => let E := fresh "E" in destruct r eqn:E; cbn [bind] in H; [|discriminate H]
  end.

Theorem operands_unchanged o a b s e :
  (forall c a' b', rr_bin o a b = Ok (c, a', b') -> a' = a /\ b' = b) /\
  (forall c a', rs_bin o a s = Ok (c, a') -> a' = a) /\
  (forall c a', sr_bin o s a = Ok (c, a') -> a' = a) /\
  (forall a' b', rr_asg o a b = Ok (a', b') -> b' = b) /\
  (forall c a', rpow a e = Ok (c, a') -> a' = a) /\
  (forall c a', rsqrt a = Ok (c, a') -> a' = a).
Proof.
  split; [intros c a' b' H; unfold rr_bin in H; destruct (same_shape a b); [|discriminate];
          bind_inv H; split; congruence|].
  split; [intros c a' H; unfold rs_bin in H; bind_inv H; congruence|].
  split; [intros c a' H; unfold sr_bin in H; bind_inv H; congruence|].
  split; [intros a' b' H; unfold rr_asg, rr_asg_loop in H; destruct (same_shape a b); [|discriminate];
          bind_inv H; congruence|].
  split; [intros c a' H; unfold rpow in H; bind_inv H; bind_inv H; congruence|].
  intros c a' H; unfold rsqrt in H; bind_inv H; bind_inv H; congruence.
Qed.

(* ... which the code before the repair did not satisfy for pow and sqrt *)
Theorem pow_sqrt_legacy_overwrite_operand :
  (exists a c a', wf a /\ rpow_legacy a 2 = Ok (c, a') /\ a' <> a) /\
  (exists a c a', wf a /\ rsqrt_legacy a = Ok (c, a') /\ a' <> a).
Proof.
  split.
  - exists (mkr 1 2 TDbl [ND 4; ND 5]). eexists. eexists.
    split; [|split; [vm_compute; reflexivity|discriminate]].
    apply wf_mk; try lia; [reflexivity|]. repeat constructor.
  - exists (mkr 1 2 TInt [NI 16; NI 25]). eexists. eexists.
    split; [|split; [vm_compute; reflexivity|discriminate]].
    apply wf_mk; try lia; [reflexivity|]. repeat constructor.
Qed.

(* ------------------------------------------------------------------------- *)
(* Compound raster-raster operators before the repair: no shape test          *)
(* ------------------------------------------------------------------------- *)

Theorem rr_asg_legacy_unchecked :
  (* a smaller right-hand side is read past its end *)
  (exists a b, wf a /\ wf b /\ same_shape a b = false /\
               rr_asg_legacy Add a b = Err UB_OutOfBounds) /\
  (* a larger one of another shape is silently used cell by cell *)
  (exists a b a', wf a /\ wf b /\ same_shape a b = false /\
               rr_asg_legacy Add a b = Ok (a', b)).
Proof.
  split.
  - exists (mkr 2 2 TInt [NI 1; NI 2; NI 3; NI 4]), (mkr 1 2 TInt [NI 1; NI 2]).
    repeat split; try (cbn; lia); try reflexivity; repeat constructor.
  - exists (mkr 1 2 TInt [NI 1; NI 2]), (mkr 2 2 TInt [NI 1; NI 2; NI 3; NI 4]). eexists.
    repeat split; try (cbn; lia); try reflexivity; repeat constructor.
Qed.

(* ------------------------------------------------------------------------- *)
(* Integer rasters and floating scalars                                      *)
(* ------------------------------------------------------------------------- *)

(* a op= s and a op s agree cell by cell unless a is integral and s a
   floating scalar with a fractional part *)
Theorem compound_scalar_matches_binary_when o a s : wf a ->
  rty a = TDbl \/ integral s ->
  exists c a', rs_bin o a s = Ok (c, a) /\ rs_asg o a s = Ok a' /\ a' = c.
Proof.
  intros W H.
  destruct (rs_bin_spec o a s W) as (c & Hc & _ & Rc & Cc & Tc & Ec).
  destruct (rs_asg_spec o a s W) as (a' & Ha & _ & Ra & Ca & Ta & Ea).
  exists c, a'. split; [exact Hc|]. split; [exact Ha|].
  assert (rcells a' = rcells c) as EE.
  { rewrite Ea, Ec. apply map_ext_in. intros x Hx.
    destruct W as (_ & _ & _ & Ty). rewrite Forall_forall in Ty. specialize (Ty _ Hx).
    destruct H as [H|H].
    - apply cell_rs_asg_other. auto.
    - destruct s as [z|q].
      + apply cell_rs_asg_other. eauto.
      + destruct (rty a) eqn:T; [|apply cell_rs_asg_other; auto].
        destruct x as [xa|xq]; [|discriminate]. apply compound_cell_agrees_when_integral. exact H. }
  destruct a', c; cbn in *; congruence.
Qed.

(* ... and they do differ otherwise: 3 * 0.5 is 1 for the binary operator
   (truncated product) but 0 for the compound one (scalar floored first) *)
Theorem compound_scalar_matches_binary_refuted :
  exists o a s c a', wf a /\ rty a = TInt /\ rs_bin o a s = Ok (c, a) /\ rs_asg o a s = Ok a' /\
    rcells c = [NI 1; NI (-1); NI 2] /\ rcells a' = [NI 0; NI 0; NI 0].
Proof.
  exists Mul, (mkr 1 3 TInt [NI 3; NI (-3); NI 5]), (ND (1 # 2)). eexists. eexists.
  split; [apply wf_mk; try lia; [reflexivity|repeat constructor]|].
  split; [reflexivity|]. split; [vm_compute; reflexivity|]. split; [vm_compute; reflexivity|].
  split; reflexivity.
Qed.

(* ------------------------------------------------------------------------- *)
(* operator== and operator!=                                                 *)
(* ------------------------------------------------------------------------- *)

Definition differ_at (xs ys : list num) (k : nat) : Prop :=
  exists x y, nth_error xs k = Some x /\ nth_error ys k = Some y /\ num_eqb x y = false.

Lemma getc_ok l k : 0 <= k < Z.of_nat (length l) ->
  exists x, getc l k = Ok x /\ nth_error l (Z.to_nat k) = Some x.
Proof.
  intros H. unfold getc. destruct (k <? 0) eqn:E; [lia|].
  destruct (nth_error l (Z.to_nat k)) eqn:N; [eauto|].
  apply nth_error_None in N. lia.
Qed.

Lemma getc_out l k : Z.of_nat (length l) <= k -> getc l k = Err UB_OutOfBounds.
Proof.
  intros H. unfold getc. destruct (k <? 0) eqn:E; [reflexivity|].
  destruct (nth_error l (Z.to_nat k)) eqn:N; [|reflexivity].
  assert (nth_error l (Z.to_nat k) <> None) as NN by congruence.
  apply nth_error_Some in NN. lia.
Qed.

Lemma diff_inner_spec xs ys base : 0 <= base -> forall todo j, 0 <= j ->
  base + j + Z.of_nat todo <= Z.of_nat (length xs) ->
  base + j + Z.of_nat todo <= Z.of_nat (length ys) ->
  exists d, diff_inner xs ys base j todo = Ok d /\
    (d = true <-> exists k, base + j <= Z.of_nat k < base + j + Z.of_nat todo /\ differ_at xs ys k).
Proof.
  intros Hb. induction todo as [|t IH]; intros j Hj Hx Hy.
  - exists false. split; [reflexivity|]. split; [discriminate|]. intros (k & Hk & _). lia.
  - cbn [diff_inner].
    destruct (getc_ok xs (base + j)) as (x & Gx & Nx); [lia|].
    destruct (getc_ok ys (base + j)) as (y & Gy & Ny); [lia|].
    rewrite Gx, Gy. cbn [bind].
    destruct (num_eqb x y) eqn:E.
    + destruct (IH (j + 1)) as (d & Hd & Hiff); [lia|lia|lia|].
      exists d. split; [exact Hd|]. rewrite Hiff. split.
      * intros (k & Hk & D). exists k. split; [lia|exact D].
      * intros (k & Hk & D).
        assert (Z.of_nat k = base + j \/ base + j + 1 <= Z.of_nat k) as [K|K] by lia.
        -- exfalso. destruct D as (x' & y' & A & B & C).
           assert (k = Z.to_nat (base + j)) by lia. subst k. congruence.
        -- exists k. split; [lia|exact D].
    + exists true. split; [reflexivity|]. split; [|reflexivity]. intros _.
      exists (Z.to_nat (base + j)). split; [lia|]. exists x, y. auto.
Qed.

Lemma diff_outer_spec xs ys inner : forall todo i, 0 <= i ->
  (i + Z.of_nat todo) * Z.of_nat inner <= Z.of_nat (length xs) ->
  (i + Z.of_nat todo) * Z.of_nat inner <= Z.of_nat (length ys) ->
  exists d, diff_outer xs ys (Z.of_nat inner) inner i todo = Ok d /\
    (d = true <-> exists k, i * Z.of_nat inner <= Z.of_nat k < (i + Z.of_nat todo) * Z.of_nat inner
                            /\ differ_at xs ys k).
Proof.
  induction todo as [|t IH]; intros i Hi Hx Hy.
  - exists false. split; [reflexivity|]. split; [discriminate|]. intros (k & Hk & _). lia.
  - cbn [diff_outer].
    destruct (diff_inner_spec xs ys (i * Z.of_nat inner) ltac:(nia) inner 0 ltac:(lia))
      as (d0 & Hd0 & Hiff0); [nia|nia|].
    rewrite Hd0. cbn [bind]. destruct d0.
    + exists true. split; [reflexivity|]. split; [|reflexivity]. intros _.
      destruct Hiff0 as [F _]. destruct (F eq_refl) as (k & Hk & D). exists k. split; [nia|exact D].
    + destruct (IH (i + 1)) as (d & Hd & Hiff); [lia|nia|nia|].
      exists d. split; [exact Hd|]. rewrite Hiff. split.
      * intros (k & Hk & D). exists k. split; [nia|exact D].
      * intros (k & Hk & D).
        assert (Z.of_nat k < (i + 1) * Z.of_nat inner \/ (i + 1) * Z.of_nat inner <= Z.of_nat k)
          as [K|K] by lia.
        -- exfalso. destruct Hiff0 as [_ B]. discriminate B. exists k. split; [nia|exact D].
        -- exists k. split; [nia|exact D].
Qed.

Lemma Forall2_nth (R : num -> num -> Prop) : forall xs ys, length xs = length ys ->
  (Forall2 R xs ys <->
   forall k x y, nth_error xs k = Some x -> nth_error ys k = Some y -> R x y).
Proof.
  induction xs as [|x xs IH]; intros [|y ys] L; cbn in L; try discriminate.
  - split; [intros _ [|k] ? ? ?; discriminate|constructor].
  - split.
    + intros F. inversion F as [|? ? ? ? Hxy Fr]; subst. intros [|k] x' y' A B; cbn in A, B.
      * injection A as <-. injection B as <-. exact Hxy.
      * assert (length xs = length ys) as L' by lia.
        exact (proj1 (IH ys L') Fr k x' y' A B).
    + intros H. constructor.
      * apply (H 0%nat); reflexivity.
      * apply IH; [lia|]. intros k x' y' A B. apply (H (S k)); assumption.
Qed.

Lemma no_difference_iff xs ys n : length xs = n -> length ys = n ->
  (~ (exists k, 0 <= Z.of_nat k < Z.of_nat n /\ differ_at xs ys k)) <-> Forall2 num_eq xs ys.
Proof.
  intros Lx Ly. rewrite (Forall2_nth num_eq xs ys) by congruence. split.
  - intros H k x y A B. apply num_eqb_spec. destruct (num_eqb x y) eqn:E; [reflexivity|].
    exfalso. apply H. exists k. split.
    + assert (nth_error xs k <> None) as NN by congruence. apply nth_error_Some in NN. lia.
    + exists x, y. auto.
  - intros H (k & _ & x & y & A & B & C). specialize (H k x y A B).
    apply num_eqb_spec in H. congruence.
Qed.

Lemma first_difference_spec r c xs ys : 0 <= r -> 0 <= c ->
  length xs = Z.to_nat (c * r) -> length ys = Z.to_nat (c * r) ->
  exists d, first_difference r c c xs ys = Ok d /\ (d = false <-> Forall2 num_eq xs ys).
Proof.
  intros Hr Hc Lx Ly. unfold first_difference.
  remember (Z.to_nat c) as n eqn:En.
  assert (Ec : c = Z.of_nat n) by lia.
  destruct (diff_outer_spec xs ys n (Z.to_nat r) 0 ltac:(lia)) as (d & Hd & Hiff);
    [nia|nia|].
  rewrite <- Ec in Hd.
  exists d. split; [exact Hd|].
  rewrite <- (no_difference_iff xs ys (Z.to_nat (c * r)) Lx Ly).
  split.
  - intros -> (k & Hk & D). destruct Hiff as [_ B]. discriminate B. exists k. split; [nia|exact D].
  - intros H. destruct d; [|reflexivity]. exfalso. apply H.
    destruct Hiff as [F _]. destruct (F eq_refl) as (k & Hk & D). exists k. split; [nia|exact D].
Qed.

Theorem eq_iff_shape_and_cells a b : wf a -> wf b ->
  exists r, raster_eq a b = Ok r /\ raster_ne a b = Ok (negb r) /\
    (r = true <-> rrows a = rrows b /\ rcols a = rcols b /\ Forall2 num_eq (rcells a) (rcells b)).
Proof.
  intros (Ra & Ca & La & _) (Rb & Cb & Lb & _). unfold raster_eq, raster_ne.
  destruct ((rrows a =? rrows b) && (rcols a =? rcols b)) eqn:S.
  - assert (rrows a = rrows b /\ rcols a = rcols b) as [ER EC] by lia.
    destruct (first_difference_spec (rrows a) (rcols a) (rcells a) (rcells b) Ra Ca La) as (d & Hd & Hiff).
    { rewrite Lb. unfold ncells. rewrite ER, EC. reflexivity. }
    rewrite Hd. cbn [bind]. exists (negb d). split; [reflexivity|].
    split; [rewrite negb_involutive; reflexivity|].
    split.
    + intros N. repeat split; try assumption. apply Hiff. destruct d; [discriminate|reflexivity].
    + intros (_ & _ & F). apply Hiff in F. subst d. reflexivity.
  - exists false. split; [reflexivity|]. split; [reflexivity|].
    split; [discriminate|]. intros (ER & EC & _). lia.
Qed.

(* The code before the repair: rows beyond the first cols_ are never compared
   (3x1 rasters differing in the last cell are "equal"), and for rows < cols
   both buffers are read out of bounds. *)
Theorem eq_legacy_refuted :
  (exists a b, wf a /\ wf b /\ same_shape a b = true /\ ~ Forall2 num_eq (rcells a) (rcells b) /\
               raster_eq_legacy a b = Ok true /\ raster_ne_legacy a b = Ok false) /\
  (exists a, wf a /\ raster_eq_legacy a a = Err UB_OutOfBounds /\
             raster_ne_legacy a a = Err UB_OutOfBounds).
Proof.
  split.
  - exists (mkr 3 1 TInt [NI 1; NI 2; NI 3]), (mkr 3 1 TInt [NI 1; NI 2; NI 4]).
    split; [apply wf_mk; try lia; [reflexivity|repeat constructor]|].
    split; [apply wf_mk; try lia; [reflexivity|repeat constructor]|].
    split; [reflexivity|]. split; [|split; reflexivity].
    cbn. intros F. inversion F as [|? ? ? ? _ F1]; subst. inversion F1 as [|? ? ? ? _ F2]; subst.
    inversion F2 as [|? ? ? ? H _]; subst. apply num_eq_int in H. discriminate.
  - exists (mkr 1 3 TInt [NI 1; NI 2; NI 3]).
    split; [apply wf_mk; try lia; [reflexivity|repeat constructor]|]. split; reflexivity.
Qed.

(* ------------------------------------------------------------------------- *)
(* Constructors of the algebra part                                          *)
(* ------------------------------------------------------------------------- *)

Lemma rectangular_Forall rows : rectangular rows = true ->
  rows <> [] /\ Forall (fun r => length r = length (hd [] rows)) rows.
Proof.
  unfold rectangular. destruct rows as [|r0 rs]; [discriminate|]. intros H.
  split; [discriminate|]. cbn [hd]. apply Forall_forall. intros r Hr.
  rewrite forallb_forall in H. specialize (H r Hr). lia.
Qed.

Lemma concat_rect_length (rows : list (list num)) c :
  Forall (fun r => length r = c) rows -> length (concat rows) = (length rows * c)%nat.
Proof.
  induction 1 as [|r rs Hr _ IH]; [reflexivity|]. cbn. rewrite app_length, IH, Hr. reflexivity.
Qed.

Lemma concat_rect_nth (rows : list (list num)) c :
  Forall (fun r => length r = c) rows ->
  forall i j row x, nth_error rows i = Some row -> nth_error row j = Some x ->
    nth_error (concat rows) (i * c + j) = Some x.
Proof.
  induction 1 as [|r rs Hr _ IH]; intros i j row x Hi Hj.
  - destruct i; discriminate.
  - destruct i as [|i]; cbn in Hi.
    + injection Hi as <-. cbn. rewrite nth_error_app1; [exact Hj|].
      apply nth_error_Some. congruence.
    + cbn [concat]. rewrite nth_error_app2 by (cbn; lia).
      replace (S i * c + j - length r)%nat with (i * c + j)%nat by (cbn; lia). eauto.
Qed.

Theorem from_rows_spec t rows : rectangular rows = true ->
  Forall (Forall (fun x => ty_of x = t)) rows ->
  exists r, from_rows t rows = Ok r /\ wf r /\ rty r = t /\
    rrows r = Z.of_nat (length rows) /\ rcols r = Z.of_nat (length (hd [] rows)) /\
    forall i j row x, nth_error rows i = Some row -> nth_error row j = Some x ->
      nth_error (rcells r) (i * length (hd [] rows) + j) = Some x.
Proof.
  intros R T. unfold from_rows. rewrite R. destruct (rectangular_Forall rows R) as (NE & F).
  eexists. split; [reflexivity|]. cbn.
  split; [|repeat split; try reflexivity; apply concat_rect_nth; exact F].
  apply wf_mk; try lia.
  - rewrite (concat_rect_length rows _ F). lia.
  - apply Forall_forall. intros x Hx. apply in_concat in Hx. destruct Hx as (row & Hrow & Hin).
    rewrite Forall_forall in T. specialize (T row Hrow). rewrite Forall_forall in T. auto.
Qed.

Theorem filled_spec t r c x : 0 <= r -> 0 <= c -> ty_of x = t ->
  wf (filled t r c x) /\ rrows (filled t r c x) = r /\ rcols (filled t r c x) = c /\
  Forall (fun y => y = x) (rcells (filled t r c x)).
Proof.
  intros Hr Hc Tx. unfold filled. split; [|cbn; repeat split; apply Forall_forall; intros y Hy;
                                             apply repeat_spec in Hy; exact Hy].
  apply wf_mk; try assumption.
  - apply repeat_length.
  - apply Forall_forall. intros y Hy. apply repeat_spec in Hy. congruence.
Qed.
