(* Kernels engine (C13): types and primitive operations shared by the generated
   tables (GeneratedKernelTables.v, written by translate/kernel_tables.py from
   the headers on every run) and the hand-written definitions.  No proofs here.

   The two enumerations mirror `enum class DispersalKernelType`
   (kernel_types.hpp) and `enum class Direction` (utils.hpp); the translator
   refuses to run when the headers' enumerator lists differ from these. *)
From Coq Require Import ZArith Reals String List Bool.
From Pops Require Import Err.
Import ListNotations.

Inductive kernel_type : Set :=
| KCauchy | KExponential | KUniform | KDeterministicNeighbor | KPowerLaw
| KHyperbolicSecant | KGamma | KExponentialPower | KWeibull | KNormal
| KLogNormal | KLogistic | KNetwork | KNone.

Inductive direction : Set :=
| DirN | DirNE | DirE | DirSE | DirS | DirSW | DirW | DirNW | DirNone.

(* Position in the C++ enum (what static_cast<int> gives for DispersalKernelType). *)
Definition kernel_type_index (k : kernel_type) : Z :=
  match k with
  | KCauchy => 0 | KExponential => 1 | KUniform => 2 | KDeterministicNeighbor => 3
  | KPowerLaw => 4 | KHyperbolicSecant => 5 | KGamma => 6 | KExponentialPower => 7
  | KWeibull => 8 | KNormal => 9 | KLogNormal => 10 | KLogistic => 11
  | KNetwork => 12 | KNone => 13
  end%Z.

Definition kernel_type_eqb (a b : kernel_type) : bool :=
  Z.eqb (kernel_type_index a) (kernel_type_index b).

(* The kernel classes the factories create_natural_kernel / create_anthro_kernel
   choose between. *)
Inductive kernel_class : Set := CUniform | CNeighbor | CNetwork | CDeterministic | CRadial.

Definition direction_is_none (d : direction) : bool :=
  match d with DirNone => true | _ => false end.

(* Lookup in a (spelling, value) table in table order; an unknown spelling gives
   the error the C++ function throws (translated next to each table). *)
Fixpoint assoc_string {A : Type} (s : string) (l : list (string * A)) : option A :=
  match l with
  | [] => None
  | (k, v) :: tl => if String.eqb s k then Some v else assoc_string s tl
  end.

Definition lookup_name {A : Type} (tbl : list (string * A)) (unknown : err) (s : string)
  : result A :=
  match assoc_string s tbl with Some v => Ok v | None => Err unknown end.

(* Which of the two kernels NaturalAnthropogenicDispersalKernel::operator() runs,
   and the generator streams it hands out. *)
Inductive mix_choice : Set := MixNatural | MixAnthropogenic.
Inductive mix_stream : Set := StreamNatural | StreamAnthropogenic.

(* ---------------- real-valued part ---------------- *)
Local Open Scope R_scope.

(* floor on R from the standard library's `up` (up x is the integer with
   x < up x <= x + 1). *)
Definition Rfloor (x : R) : Z := (up x - 1)%Z.

(* C's lround: nearest integer, halfway cases away from zero. *)
Definition Rlround (x : R) : Z :=
  if Rle_dec 0 x then Rfloor (x + / 2) else (- Rfloor (- x + / 2))%Z.

(* C's trunc and fmod (result has the sign of the dividend). *)
Definition Rtrunc (x : R) : Z := if Rle_dec 0 x then Rfloor x else (- Rfloor (- x))%Z.
Definition Rfmod (x y : R) : R := x - IZR (Rtrunc (x / y)) * y.

(* Comparisons of `double`s as booleans (real-number semantics). *)
Definition Rb_eq (x y : R) : bool := if Req_EM_T x y then true else false.
Definition Rb_lt (x y : R) : bool := if Rlt_dec x y then true else false.
Definition Rb_le (x y : R) : bool := if Rle_dec x y then true else false.

(* The parameterisations of ISO C++ [rand.dist] that the kernel classes
   construct.  Argument order is the constructor's. *)
Inductive std_dist : Type :=
| StdCauchy (a b : R)            (* cauchy_distribution(a, b) *)
| StdExponential (lambda : R)    (* exponential_distribution(lambda) *)
| StdWeibull (a b : R)           (* weibull_distribution(a, b): a shape, b scale *)
| StdNormal (mean stddev : R)    (* normal_distribution(mean, stddev) *)
| StdLognormal (m s : R)         (* lognormal_distribution(m, s) *)
| StdGamma (alpha beta : R)      (* gamma_distribution(alpha, beta): beta is a SCALE *)
| StdUniformReal (a b : R).      (* uniform_real_distribution(a, b) *)

(* How a kernel class's random() obtains its value. *)
Inductive draw_form : Type :=
| DrawStd (d : std_dist) (folded : bool)
    (* return [std::abs](d(generator)) *)
| DrawIcdf (d : std_dist) (folded : bool).
    (* x = d(generator); return [std::abs](icdf(x)) *)
