(* Kernels engine (C13): types and primitive operations shared by the generated
   tables (GeneratedKernelTables.v, written by translate/kernel_tables.py from
   the headers on every run) and the hand-written definitions.  No proofs here.

   The two enumerations mirror `enum class DispersalKernelType`
   (kernel_types.hpp) and `enum class Direction` (utils.hpp); the translator
   refuses to run when the headers' enumerator lists differ from these. *)
From Coq Require Import ZArith Reals String List Bool.
From Pops Require Import Err.
Import ListNotations.

Inductive kernel_type : Set :=
| KCauchy | KExponential | KUniform | KDeterministicNeighbor | KPowerLaw
| KHyperbolicSecant | KGamma | KExponentialPower | KWeibull | KNormal
| KLogNormal | KLogistic | KNetwork | KNone.

Inductive direction : Set :=
| DirN | DirNE | DirE | DirSE | DirS | DirSW | DirW | DirNW | DirNone.

(* Position in the C++ enum (what static_cast<int> gives for DispersalKernelType). *)
Definition kernel_type_index (k : kernel_type) : Z :=
  match k with
  | KCauchy => 0 | KExponential => 1 | KUniform => 2 | KDeterministicNeighbor => 3
  | KPowerLaw => 4 | KHyperbolicSecant => 5 | KGamma => 6 | KExponentialPower => 7
  | KWeibull => 8 | KNormal => 9 | KLogNormal => 10 | KLogistic => 11
  | KNetwork => 12 | KNone => 13
  end%Z.

Definition kernel_type_eqb (a b : kernel_type) : bool :=
  Z.eqb (kernel_type_index a) (kernel_type_index b).

(* The kernel classes the factories create_natural_kernel / create_anthro_kernel
   choose between. *)
Inductive kernel_class : Set := CUniform | CNeighbor | CNetwork | CDeterministic | CRadial.

Definition direction_is_none (d : direction) : bool :=
  match d with DirNone => true | _ => false end.

(* Lookup in a (spelling, value) table in table order; an unknown spelling gives
   the error the C++ function throws (translated next to each table). *)
Fixpoint assoc_string {A : Type} (s : string) (l : list (string * A)) : option A :=
  match l with
  | [] => None
  | (k, v) :: tl => if String.eqb s k then Some v else assoc_string s tl
  end.

Definition lookup_name {A : Type} (tbl : list (string * A)) (unknown : err) (s : string)
  : result A :=
  match assoc_string s tbl with Some v => Ok v | None => Err unknown end.

(* Which of the two kernels NaturalAnthropogenicDispersalKernel::operator() runs,
   and the generator streams it hands out. *)
Inductive mix_choice : Set := MixNatural | MixAnthropogenic.
Inductive mix_stream : Set := StreamNatural | StreamAnthropogenic.

(* ---------------- SwitchDispersalKernel and eligibility ---------------- *)
(* Tests of the if-chains of SwitchDispersalKernel (switch_kernel.hpp) and of the
   supports_kernel functions, as the translator writes them down:
   ScType k   `dispersal_kernel_type_ == DispersalKernelType::k` (`type == ...` in
              supports_kernel), ScStoch  `dispersal_stochasticity_`. *)
Inductive switch_cond : Set :=
| ScType (k : kernel_type)
| ScStoch
| ScNot (c : switch_cond)
| ScAnd (a b : switch_cond)
| ScOr (a b : switch_cond)
| ScTrue.

Fixpoint switch_cond_holds (c : switch_cond) (ty : kernel_type) (stoch : bool) : bool :=
  match c with
  | ScType k => kernel_type_eqb ty k
  | ScStoch => stoch
  | ScNot a => negb (switch_cond_holds a ty stoch)
  | ScAnd a b => andb (switch_cond_holds a ty stoch) (switch_cond_holds b ty stoch)
  | ScOr a b => orb (switch_cond_holds a ty stoch) (switch_cond_holds b ty stoch)
  | ScTrue => true
  end.

(* An if / else-if chain (or a sequence of early returns) in source order: the
   first test that holds decides; `dflt` is the final else. *)
Fixpoint first_match {A : Type} (tbl : list (switch_cond * A)) (dflt : A)
    (ty : kernel_type) (stoch : bool) : A :=
  match tbl with
  | [] => dflt
  | (c, a) :: tl => if switch_cond_holds c ty stoch then a else first_match tl dflt ty stoch
  end.

(* What is_cell_eligible(row, col) of a kernel class returns: a constant, or
   network_.has_node_at(row, col). *)
Inductive elig_rule : Set := EligConst (b : bool) | EligNodeAt.
(* node_at: the network has a node at the source cell *)
Definition elig_eval (r : elig_rule) (node_at : bool) : bool :=
  match r with EligConst b => b | EligNodeAt => node_at end.

(* What a branch of SwitchDispersalKernel::is_cell_eligible returns: a constant
   or <member kernel>.is_cell_eligible(row, col); and of supports_kernel: a
   constant or <kernel class>::supports_kernel(type). *)
Inductive elig_src : Set := SeConst (b : bool) | SeMember (c : kernel_class).
Inductive supports_src : Set := SsConst (b : bool) | SsClass (c : kernel_class).

(* ---------------- real-valued part ---------------- *)
Local Open Scope R_scope.

(* floor on R from the standard library's `up` (up x is the integer with
   x < up x <= x + 1). *)
Definition Rfloor (x : R) : Z := (up x - 1)%Z.

(* C's lround: nearest integer, halfway cases away from zero. *)
Definition Rlround (x : R) : Z :=
  if Rle_dec 0 x then Rfloor (x + / 2) else (- Rfloor (- x + / 2))%Z.

(* C's trunc and fmod (result has the sign of the dividend). *)
Definition Rtrunc (x : R) : Z := if Rle_dec 0 x then Rfloor x else (- Rfloor (- x))%Z.
Definition Rfmod (x y : R) : R := x - IZR (Rtrunc (x / y)) * y.

(* Comparisons of `double`s as booleans (real-number semantics). *)
Definition Rb_eq (x y : R) : bool := if Req_EM_T x y then true else false.
Definition Rb_lt (x y : R) : bool := if Rlt_dec x y then true else false.
Definition Rb_le (x y : R) : bool := if Rle_dec x y then true else false.

(* The parameterisations of ISO C++ [rand.dist] that the kernel classes
   construct.  Argument order is the constructor's. *)
Inductive std_dist : Type :=
| StdCauchy (a b : R)            (* cauchy_distribution(a, b) *)
| StdExponential (lambda : R)    (* exponential_distribution(lambda) *)
| StdWeibull (a b : R)           (* weibull_distribution(a, b): a shape, b scale *)
| StdNormal (mean stddev : R)    (* normal_distribution(mean, stddev) *)
| StdLognormal (m s : R)         (* lognormal_distribution(m, s) *)
| StdGamma (alpha beta : R)      (* gamma_distribution(alpha, beta): beta is a SCALE *)
| StdUniformReal (a b : R).      (* uniform_real_distribution(a, b) *)

(* How a kernel class's random() obtains its value. *)
Inductive draw_form : Type :=
| DrawStd (d : std_dist) (folded : bool)
    (* return [std::abs](d(generator)) *)
| DrawIcdf (d : std_dist) (folded : bool).
    (* x = d(generator); return [std::abs](icdf(x)) *)
