(* C12  Establishment, weather and pest-removal rules follow their stated formulas.
   Statements only; proofs in ActionProps.v / CellProps.v / RoundingProps.v.
   PARTIAL by design (DESIGN.md 3.3): "establishes with probability p" is reduced
   to the deterministic fact that the decision is `tester < p` for the uniform
   variate the library draws; that std::uniform_real_distribution is uniform on
   [0,1) is modelled, not proved (validated by frequency tests in bin/check). *)
From Coq Require Import ZArith QArith Qabs List.
From Pops Require Import Err Rounding RoundingProps CellDefs CellProps LandDefs LandProps EnvDefs ActionProps.
Import ListNotations.
Local Open Scope Z_scope.

(* suitability = susceptible / total population x susceptibility x weather,
   and values outside [0,1] are rejected *)
Theorem C12_suitability : forall g k i w t s w' t', suitability_at g k i w t = Ok (s, w', t') ->
  w' = w /\ t' = t /\
  exists c hc n, get_cell k i w t = Ok (c, w, t) /\ host_cfg g k w t = Ok (hc, w, t) /\
    total_population_at i w t = Ok (n, w, t) /\ n <> 0 /\
    (0 <= s <= 1)%Q /\
    ((g_weather g = false /\ s = suit_value g hc c n 0) \/
     (g_weather g = true /\ exists wc, weather_at i w t = Ok (wc, w, t) /\ s = suit_value g hc c n wc)).
Proof. exact suitability_at_spec. Qed.
Print Assumptions C12_suitability.

(* The establishment decision: established iff tester < probability, where the
   tester is 1 - establishment probability when stochasticity is off and a
   variate in [0,1) otherwise (ties closer than 2^-40 may follow the
   floating-point answer). *)
Theorem C12_establish_decision : forall prob stoch det w t res w' t',
  can_establish prob stoch det w t = Ok (res, w', t') ->
  w' = w /\ exists tester p0, t = EvEstablish tester p0 res :: t' /\
    (stoch = false -> tester == 1 - det)%Q /\
    (stoch = true -> 0 <= tester /\ tester < 1)%Q /\
    (res = qltb tester prob \/ (Qabs (tester - prob) < 1 # 1099511627776)%Q).
Proof. exact can_establish_spec. Qed.
Print Assumptions C12_establish_decision.

(* never when no susceptible host is present *)
Theorem C12_never_without_susceptible : forall mt c c' n, add_disperser mt c = Ok (c', n) ->
  cS c <= 0 -> n = 0 /\ c' = c.
Proof. exact add_disperser_needs_susceptible. Qed.
Print Assumptions C12_never_without_susceptible.

(* Lethal temperature at a cold cell: every infected host returns to
   susceptible, exposed hosts are untouched; (that cells not colder than the
   threshold are untouched is the `else ret tt` branch of act_lethal, checked
   by the monitor and by the correspondence) *)
Theorem C12_lethal_cell : forall c d c', Inv0 c -> remove_infected c (cI c) d = Ok c' ->
  cI c' = 0 /\ cS c' = cS c + cI c /\ cE c' = cE c /\ cTE c' = cTE c /\ cR c' = cR c /\ cD c' = cD c /\ cTH c' = cTH c.
Proof. exact lethal_cell. Qed.
Print Assumptions C12_lethal_cell.

(* survival rate r < 1 keeps round(r x count), the rest returns to susceptible *)
Theorem C12_survival_keeps_round : forall n r, n - ratio_removed n r = qlround (zq n * r).
Proof. exact survival_counts. Qed.
Print Assumptions C12_survival_keeps_round.

Theorem C12_survival_bounds : forall n r, 0 <= n -> (0 <= r <= 1)%Q -> 0 <= ratio_removed n r <= n.
Proof. exact ratio_removed_bounds. Qed.
Print Assumptions C12_survival_bounds.

(* the removal actions keep every cell invariant and the number of hosts, for every tape *)
Theorem C12_lethal_preserves : forall lv q g, MonadProps.hoare (WI lv q) (act_lethal g) (fun _ w => WI lv q w).
Proof. exact act_lethal_WI. Qed.
Print Assumptions C12_lethal_preserves.

Theorem C12_survival_preserves : forall lv q g rates, rates_ok rates ->
  MonadProps.hoare (WI lv q) (act_survival g rates) (fun _ w => WI lv q w).
Proof. exact act_survival_WI. Qed.
Print Assumptions C12_survival_preserves.

(* weather coefficients drawn from the normal distribution with uniform
   fallback always lie in [0, 1] *)
Theorem C12_weather_draw_in_range : forall normal uniform, (0 <= uniform <= 1)%Q ->
  (0 <= weather_draw normal uniform <= 1)%Q.
Proof. exact weather_draw_in_range. Qed.
Print Assumptions C12_weather_draw_in_range.

(* ... for every cell of update_weather_from_distribution, whatever the normal
   variates; a mean outside [0, 1] and mismatching shapes are rejected *)
Theorem C12_weather_from_distribution_in_range : forall means draws vals,
  Forall (fun d => (0 <= snd d <= 1)%Q) draws -> weather_cells means draws = Ok vals ->
  Forall (fun v => (0 <= v <= 1)%Q) vals /\ length vals = length means /\
  Forall (fun m => (0 <= m <= 1)%Q) means.
Proof. exact weather_cells_in_range. Qed.
Print Assumptions C12_weather_from_distribution_in_range.

Theorem C12_mean_out_of_range_rejected : forall pre m post draws,
  Forall (fun x => (0 <= x <= 1)%Q) pre -> (length pre <= length draws)%nat ->
  (m < 0 \/ 1 < m)%Q -> weather_cells (pre ++ m :: post) draws = Err InvalidArgument.
Proof. exact weather_mean_out_of_range_rejected. Qed.
Print Assumptions C12_mean_out_of_range_rejected.

Theorem C12_weather_shape_mismatch_rejected : forall mr mc sr sc means draws, (mr <> sr \/ mc <> sc) ->
  update_weather_from_distribution mr mc sr sc means draws = Err InvalidArgument.
Proof. exact weather_shape_mismatch_rejected. Qed.
Print Assumptions C12_weather_shape_mismatch_rejected.

Example C12_nonvacuous :
  ratio_removed 7 (1 # 2) = 3 /\ weather_draw (3 # 2) (1 # 4) = (1 # 4)%Q /\
  suit_value (mkconfig 1 1 [] false false 0 None true 0 false false 0 0 0 0)
             (mkhostcfg SI 0 false 1 false 1 (Some ((1 # 2)%Q, 0%Q, 0))) (mkcell 10 [] 0 0 0 [0] 0 10) 20 (1 # 2)
  == (1 # 8)%Q.
Proof. vm_compute. repeat split; reflexivity. Qed.
Print Assumptions C12_nonvacuous.
