(* Disperser accounting (property C04): what SpreadAction::generate writes to
   the dispersers raster, where each disperser of SpreadAction::disperse ends
   up (outside / lost / established), the balance between susceptible hosts
   consumed and established dispersers, the bound "established <= dispersers",
   ageing of the soil cohorts and non-negativity of the pest-pool rasters.
   All statements hold for every tape of random outcomes. *)
From Coq Require Import ZArith QArith List Bool Lia ZifyBool Lqa.
From Pops Require Import Err Rounding RoundingProps CellDefs CellProps MoveProps LandDefs MonadProps
  LandProps ShapeProps LandProps2 ActionProps.
Import ListNotations.
Local Open Scope Z_scope.

(* ---------- helper definitions ---------- *)
Fixpoint cells_S (cs : list cell) : Z := match cs with [] => 0 | c :: r => cS c + cells_S r end.
Fixpoint hosts_S (hs : list hostpool) : Z :=
  match hs with [] => 0 | h :: r => cells_S (hp_cells h) + hosts_S r end.
(* sum of the susceptible hosts over all cells of all hosts *)
Definition S_total (w : world) : Z := hosts_S (w_hosts w).
Definition estab_total (w : world) : Z := sumZ (w_estab w).
Definition rnonneg (l : list Z) : Prop := Forall (fun x => 0 <= x) l.

(* l with position i increased by one *)
Fixpoint incr_at (l : list Z) (i : nat) : list Z :=
  match l, i with
  | [], _ => []
  | x :: r, O => (x + 1) :: r
  | x :: r, S k => x :: incr_at r k
  end.

(* ---------- list facts ---------- *)
Lemma cells_S_app a b : cells_S (a ++ b) = cells_S a + cells_S b.
Proof. induction a as [|x r IH]; cbn [app cells_S]; lia. Qed.
Lemma hosts_S_app a b : hosts_S (a ++ b) = hosts_S a + hosts_S b.
Proof. induction a as [|x r IH]; cbn [app hosts_S]; lia. Qed.

Lemma incr_at_length l : forall i, length (incr_at l i) = length l.
Proof. induction l as [|x r IH]; intros [|i]; cbn [incr_at length]; auto. Qed.

Lemma incr_at_sum l : forall i, (i < length l)%nat -> sumZ (incr_at l i) = sumZ l + 1.
Proof.
  induction l as [|x r IH]; intros [|i] H; cbn [incr_at sumZ length] in *; try lia.
  rewrite IH; lia.
Qed.

Lemma incr_at_nth l : forall i j, (i < length l)%nat ->
  nth j (incr_at l i) 0 = nth j l 0 + (if Nat.eqb j i then 1 else 0).
Proof.
  induction l as [|x r IH]; intros [|i] [|j] H; cbn [incr_at nth length Nat.eqb] in *; try lia.
  apply IH. lia.
Qed.

Lemma rset_incr (l : list Z) : forall i cur l', nth_error l i = Some cur -> rset l i (cur + 1) = Ok l' ->
  l' = incr_at l i /\ (i < length l)%nat.
Proof.
  induction l as [|x r IH]; intros [|i] cur l' Hn Hs; cbn [nth_error rset incr_at length] in *; try discriminate.
  - injection Hn as ->. injection Hs as <-. split; [reflexivity|lia].
  - destruct (rset r i (cur + 1)) as [r'|] eqn:E; [|discriminate]. cbn [bind] in Hs. injection Hs as <-.
    destruct (IH _ _ _ Hn E) as (-> & Hl). split; [reflexivity|lia].
Qed.

Lemma nth_error_nth_Z (l : list Z) i x : nth_error l i = Some x -> nth i l 0 = x.
Proof. revert i. induction l as [|y r IH]; intros [|i] H; cbn in *; try discriminate; [congruence|auto]. Qed.

Lemma nth_from_nth_error (l l' : list Z) j : nth_error l' j = nth_error l j -> nth j l' 0 = nth j l 0.
Proof.
  intros H. destruct (nth_error l j) as [x|] eqn:E.
  - rewrite (nth_error_nth_Z _ _ _ H), (nth_error_nth_Z _ _ _ E). reflexivity.
  - apply nth_error_None in H. apply nth_error_None in E. rewrite !nth_overflow; auto.
Qed.

Lemma rset_length {A} (l : list A) i a l' : rset l i a = Ok l' -> length l' = length l.
Proof.
  intros R. destruct (rset_spec _ _ _ _ R) as (pre & old & post & -> & -> & _).
  rewrite !app_length. reflexivity.
Qed.

Lemma rnonneg_nth l i : rnonneg l -> 0 <= nth i l 0.
Proof.
  intros H. destruct (nth_error l i) as [x|] eqn:E.
  - rewrite (nth_error_nth_Z _ _ _ E). unfold rnonneg in H. rewrite Forall_forall in H.
    apply H. eapply nth_error_In; eauto.
  - apply nth_error_None in E. rewrite nth_overflow; [lia|exact E].
Qed.

(* ---------- relations between the world before and after ---------- *)
Definition wrel {A} (R : world -> world -> Prop) (m : W A) : Prop :=
  forall w t a w' t', m w t = Ok (a, w', t') -> R w w'.
Definition rrefl (R : world -> world -> Prop) : Prop := forall w, R w w.
Definition rtrans (R : world -> world -> Prop) : Prop := forall a b c, R a b -> R b c -> R a c.

Lemma wrel_ro {A} R (m : W A) : rrefl R -> read_only m -> wrel R m.
Proof. intros HR Hm w t a w' t' E. apply Hm in E. subst. apply HR. Qed.

Lemma wrel_bind {A B} R (m : W A) (f : A -> W B) : rtrans R ->
  wrel R m -> (forall a, wrel R (f a)) -> wrel R (mbind m f).
Proof.
  intros HT Hm Hf w t x w' t' H. apply bind_inv in H as (a & s1 & t1 & E1 & E2).
  eapply HT; [eapply Hm; eauto|eapply Hf; eauto].
Qed.

Lemma wrel_mrepeat R (m : W unit) n : rrefl R -> rtrans R -> wrel R m -> wrel R (mrepeat n m).
Proof.
  intros HR HT Hm. induction n as [|n IH]; cbn [mrepeat]; [apply wrel_ro; [exact HR|apply ro_ret]|].
  apply wrel_bind; [exact HT|exact Hm|]. intros ?u. exact IH.
Qed.

Lemma wrel_mfold {A} R (f : A -> W unit) l : rrefl R -> rtrans R ->
  (forall a, wrel R (f a)) -> wrel R (mfold f l).
Proof.
  intros HR HT Hf. induction l as [|a r IH]; cbn [mfold]; [apply wrel_ro; [exact HR|apply ro_ret]|].
  apply wrel_bind; [exact HT|apply Hf|]. intros ?u. exact IH.
Qed.

Lemma wrel_for_suitable R g (f : Z -> Z -> nat -> W unit) : rrefl R -> rtrans R ->
  (forall r c i, wrel R (f r c i)) -> wrel R (for_suitable g f).
Proof.
  intros HR HT Hf. unfold for_suitable.
  apply wrel_bind; [exact HT|apply wrel_ro; [exact HR|apply ro_suitable_cells]|]. intros cells.
  apply wrel_mfold; [exact HR|exact HT|]. intros rc.
  apply wrel_bind; [exact HT|apply wrel_ro; [exact HR|apply ro_lift]|]. intros i. apply Hf.
Qed.

(* ---------- raster writes ---------- *)
Lemma set_disp_inv i v w t u w' t' : set_raster_at w_disp upd_disp i v w t = Ok (u, w', t') ->
  t' = t /\ exists r, rset (w_disp w) i v = Ok r /\ w' = upd_disp w r.
Proof. intros H. unfold set_raster_at in H. binv. eauto. Qed.

Lemma set_estab_inv i v w t u w' t' : set_raster_at w_estab upd_estab i v w t = Ok (u, w', t') ->
  t' = t /\ exists r, rset (w_estab w) i v = Ok r /\ w' = upd_estab w r.
Proof. intros H. unfold set_raster_at in H. binv. eauto. Qed.

(* ================================================================== *)
(* 1. cells without infected hosts generate nothing                     *)
(* ================================================================== *)
Lemma gen_zero g i w t d w' t' :
  multi_dispersers_from g i w t = Ok (d, w', t') ->
  (forall k c, cell_at w k i = Some c -> cI c <= 0) ->
  d = 0 /\ w' = w /\ t' = t.
Proof.
  intros H Hz. unfold multi_dispersers_from in H.
  apply bind_inv in H as (n & s0 & t0 & E & H). unfold num_hosts in E. binv.
  match type of H with ?F 0%nat ?n 0 w t = _ =>
    assert (HF : forall m k acc, F k m acc w t = Ok (d, w', t') -> d = acc /\ w' = w /\ t' = t);
      [|exact (HF _ _ _ H)] end.
  clear H. induction m as [|m IH]; intros k acc H.
  - apply ret_inv in H as (-> & -> & ->). auto.
  - apply bind_inv in H as (c & s0 & t0 & E & H). apply get_cell_at in E as (-> & -> & Hc).
    apply Hz in Hc. destruct (Z.leb_spec (cI c) 0) as [_|]; [|lia].
    apply bind_inv in H as (d0 & s0 & t0 & E & H). apply ret_inv in E as (-> & -> & ->).
    apply IH in H as (-> & -> & ->). split; [lia|auto].
Qed.

(* the body of the loop of SpreadAction::generate *)
Definition generate_body (g : config) (i : nat) : W unit :=
  let* d := multi_dispersers_from g i in
  if d >? 0 then
    let* w := get in
    let* d' := match w_soil w with
               | Some _ =>
                 let to_soil := qlround (g_soil_pct g * zq d) in
                 mrepeat (Z.to_nat to_soil) (soil_disperser_to g i) ;; ret (d - to_soil)
               | None => ret d
               end in
    set_raster_at w_disp upd_disp i d' ;; set_raster_at w_estab upd_estab i 0
  else
    set_raster_at w_disp upd_disp i 0 ;; set_raster_at w_estab upd_estab i 0.

Lemma act_generate_body g : act_generate g = for_suitable g (fun _ _ i => generate_body g i).
Proof. reflexivity. Qed.

(* the value SpreadAction::generate writes for d produced dispersers *)
Definition disp_written (g : config) (w : world) (d : Z) : Z :=
  if d >? 0 then
    match w_soil w with Some _ => d - qlround (g_soil_pct g * zq d) | None => d end
  else 0.

(* only the soil cohorts change *)
Definition soil_only (w w' : world) : Prop :=
  w_hosts w' = w_hosts w /\ w_disp w' = w_disp w /\ w_estab w' = w_estab w /\
  w_outside w' = w_outside w /\ (w_soil w = None -> w_soil w' = None).

Lemma soil_only_refl : rrefl soil_only.
Proof. intros w. unfold soil_only. auto. Qed.
Lemma soil_only_trans : rtrans soil_only.
Proof. intros a b c (A1 & A2 & A3 & A4 & A5) (B1 & B2 & B3 & B4 & B5). unfold soil_only. repeat split; try congruence. auto. Qed.

Lemma soil_disperser_to_soil_only g i : wrel soil_only (soil_disperser_to g i).
Proof.
  intros w t a w' t' H. unfold soil_disperser_to in H. binv'; try apply soil_only_refl.
  unfold soil_only; cbn [upd_soil w_hosts w_disp w_estab w_outside w_soil]. repeat split; congruence.
Qed.

Lemma soil_dispersers_from_soil_only g i : wrel soil_only (soil_dispersers_from g i).
Proof.
  intros w t a w' t' H. unfold soil_dispersers_from in H. binv'; try apply soil_only_refl.
  unfold soil_only; cbn [upd_soil w_hosts w_disp w_estab w_outside w_soil]. repeat split; congruence.
Qed.

Lemma generate_body_spec g i w t u w' t' : generate_body g i w t = Ok (u, w', t') ->
  exists d t1, multi_dispersers_from g i w t = Ok (d, w, t1) /\
    w_hosts w' = w_hosts w /\ w_outside w' = w_outside w /\
    nth_error (w_disp w') i = Some (disp_written g w d) /\
    nth_error (w_estab w') i = Some 0 /\
    (forall j, j <> i -> nth_error (w_disp w') j = nth_error (w_disp w) j) /\
    (forall j, j <> i -> nth_error (w_estab w') j = nth_error (w_estab w) j) /\
    length (w_disp w') = length (w_disp w) /\ length (w_estab w') = length (w_estab w).
Proof.
  intros H. unfold generate_body in H.
  apply bind_inv in H as (d & s0 & t1 & E & H). pose proof E as E'. apply ro_multi_dispersers_from in E'. subst s0.
  exists d, t1. split; [exact E|]. unfold disp_written.
  assert (K : forall v w1 t2, soil_only w w1 ->
            (set_raster_at w_disp upd_disp i v ;; set_raster_at w_estab upd_estab i 0) w1 t2 = Ok (u, w', t') ->
            w_hosts w' = w_hosts w /\ w_outside w' = w_outside w /\
            nth_error (w_disp w') i = Some v /\ nth_error (w_estab w') i = Some 0 /\
            (forall j, j <> i -> nth_error (w_disp w') j = nth_error (w_disp w) j) /\
            (forall j, j <> i -> nth_error (w_estab w') j = nth_error (w_estab w) j) /\
            length (w_disp w') = length (w_disp w) /\ length (w_estab w') = length (w_estab w)).
  { intros v w1 t2 (A1 & A2 & A3 & A4 & _) K.
    apply bind_inv in K as (u1 & w2 & t3 & K1 & K2).
    apply set_disp_inv in K1 as (-> & r1 & R1 & ->). apply set_estab_inv in K2 as (-> & r2 & R2 & ->).
    cbn [upd_estab upd_disp w_hosts w_disp w_estab w_outside] in *.
    pose proof (rset_nth _ _ _ _ R1) as N1. pose proof (rset_nth _ _ _ _ R2) as N2.
    rewrite A2 in N1, R1. rewrite A3 in N2, R2.
    split; [exact A1|]. split; [exact A4|].
    split; [rewrite N1, Nat.eqb_refl; reflexivity|]. split; [rewrite N2, Nat.eqb_refl; reflexivity|].
    split; [intros j Hj; rewrite N1; apply Nat.eqb_neq in Hj; rewrite Hj; reflexivity|].
    split; [intros j Hj; rewrite N2; apply Nat.eqb_neq in Hj; rewrite Hj; reflexivity|].
    split; [exact (rset_length _ _ _ _ R1)|exact (rset_length _ _ _ _ R2)]. }
  destruct (d >? 0).
  - apply bind_inv in H as (w0 & s0 & t2 & E0 & H). apply get_inv in E0 as (-> & -> & ->).
    apply bind_inv in H as (d' & w1 & t3 & E1 & H).
    destruct (w_soil w) as [s|].
    + apply bind_inv in E1 as (u0 & w2 & t4 & E1 & E2). apply ret_inv in E2 as (-> & -> & ->).
      apply (wrel_mrepeat soil_only _ _ soil_only_refl soil_only_trans (soil_disperser_to_soil_only g i)) in E1.
      eapply K; eauto.
    + apply ret_inv in E1 as (-> & -> & ->). eapply K; [apply soil_only_refl|eauto].
  - eapply K; [apply soil_only_refl|eauto].
Qed.

Lemma generate_cell_zero g i w t u w' t' :
  generate_body g i w t = Ok (u, w', t') ->
  (forall k c, cell_at w k i = Some c -> cI c <= 0) ->
  nth_error (w_disp w') i = Some 0 /\ nth_error (w_estab w') i = Some 0 /\ t' = t.
Proof.
  intros H Hz. pose proof H as H0. apply generate_body_spec in H as (d & t1 & E & _ & _ & Hd & He & _).
  pose proof (gen_zero _ _ _ _ _ _ _ E Hz) as (-> & _ & ->).
  unfold disp_written in Hd. cbn in Hd. split; [exact Hd|]. split; [exact He|].
  unfold generate_body in H0. apply bind_inv in H0 as (d & s0 & t2 & E2 & H0).
  rewrite E in E2. injection E2 as <- <- <-. cbn in H0.
  apply bind_inv in H0 as (u1 & w2 & t3 & K1 & K2).
  apply set_disp_inv in K1 as (-> & _). apply set_estab_inv in K2 as (-> & _). reflexivity.
Qed.

(* ================================================================== *)
(* 2. the number of dispersers one host generates                       *)
(* ================================================================== *)
(* lambda of dispersers_from: reproductive rate x weather x competency *)
Definition gen_lambda (g : config) (hc : hostcfg) (wc comp : Q) : Q :=
  let lam0 := if g_weather g then (h_rr hc * wc)%Q else h_rr hc in
  match g_competency g with Some _ => (lam0 * comp)%Q | None => lam0 end.

Definition tape_same {A} (m : W A) : Prop := forall w t a w' t', m w t = Ok (a, w', t') -> t' = t.

Lemma ts_weather_at i : tape_same (weather_at i).
Proof. intros w t a w' t' H. unfold weather_at in H. binv'; reflexivity. Qed.
Lemma ts_competency_at g k i : tape_same (competency_at g k i).
Proof.
  intros w t a w' t' H. unfold competency_at in H. unfold host_presence_at in H. binv'; reflexivity.
Qed.

Lemma gen_det g k i w t d w' t' :
  host_dispersers_from g k i w t = Ok (d, w', t') ->
  w' = w /\
  exists c hc wc comp row col lam,
    cell_at w k i = Some c /\ nth_error (g_hosts g) k = Some hc /\ 0 < cI c /\
    t = EvGenerate row col lam d :: t' /\
    (g_weather g = true -> weather_at i w t' = Ok (wc, w, t')) /\
    competency_at g k i w t' = Ok (comp, w, t') /\
    (h_disp_stoch hc = false -> d = qlround (gen_lambda g hc wc comp * zq (cI c))) /\
    (h_disp_stoch hc = true -> 0 <= d).
Proof.
  intros H. pose proof (ro_host_dispersers_from g k i _ _ _ _ _ H) as ->. split; [reflexivity|].
  unfold host_dispersers_from in H.
  apply bind_inv in H as (c & s0 & t0 & E & H). apply get_cell_at in E as (-> & -> & Hc).
  apply bind_inv in H as (e & s0 & t0 & E & H). apply pop_inv in E as (-> & ->).
  destruct e as [| |row col lam count| | | | | |]; try discriminate H.
  destruct (Z.leb_spec (cI c) 0) as [|HI]; [discriminate H|].
  apply bind_inv in H as (hc & s0 & t1 & E & H). unfold host_cfg in E. apply lift_inv in E as (Ehc & -> & ->).
  apply rget_Some in Ehc.
  apply bind_inv in H as (lam0 & s0 & t1 & El & H).
  apply bind_inv in H as (comp & s0' & t2 & Ec & H).
  assert (Hl : s0 = w /\ t1 = t0 /\ exists wc, (g_weather g = true -> weather_at i w t0 = Ok (wc, w, t0)) /\
               lam0 = if g_weather g then (h_rr hc * wc)%Q else h_rr hc).
  { destruct (g_weather g).
    - apply bind_inv in El as (wc & s1 & t3 & E1 & E2). apply ret_inv in E2 as (-> & -> & ->).
      pose proof (ro_weather_at _ _ _ _ _ _ E1) as ->. pose proof (ts_weather_at _ _ _ _ _ _ E1) as ->.
      split; [reflexivity|]. split; [reflexivity|]. exists wc. auto.
    - apply ret_inv in El as (-> & -> & ->). split; [reflexivity|]. split; [reflexivity|].
      exists 0%Q. split; [discriminate|reflexivity]. }
  destruct Hl as (-> & -> & wc & Hw & ->).
  pose proof (ro_competency_at _ _ _ _ _ _ _ _ Ec) as ->. pose proof (ts_competency_at _ _ _ _ _ _ _ _ Ec) as ->.
  assert (Hd : count = d /\ t0 = t' /\
               (h_disp_stoch hc = false -> d = qlround (gen_lambda g hc wc comp * zq (cI c))) /\
               (h_disp_stoch hc = true -> 0 <= d)).
  { unfold gen_lambda. destruct (h_disp_stoch hc).
    - destruct (Z.ltb_spec count 0); [discriminate H|]. apply ret_inv in H as (-> & _ & ->).
      split; [reflexivity|]. split; [reflexivity|]. split; [discriminate|]. intros _. assumption.
    - match type of H with (if ?a =? ?b then _ else _) _ _ = _ => destruct (Z.eqb_spec a b) as [Ee|]; [|discriminate H] end.
      apply ret_inv in H as (-> & _ & ->). split; [reflexivity|]. split; [reflexivity|].
      split; [intros _; exact Ee|discriminate]. }
  destruct Hd as (-> & -> & Hdet & Hst).
  exists c, hc, wc, comp, row, col, lam. repeat split; auto.
Qed.

(* ================================================================== *)
(* 3. the split between the soil and the dispersers raster             *)
(* ================================================================== *)
Lemma soil_split_bounds pct d : 0 <= d -> (0 <= pct <= 1)%Q ->
  let to_soil := qlround (pct * zq d) in
  0 <= to_soil <= d /\ 0 <= d - to_soil <= d /\ to_soil + (d - to_soil) = d.
Proof.
  intros Hd Hp. cbv zeta. destruct (scale_bounds d pct Hd Hp) as (A & B).
  assert (C : 0 <= qlround (pct * zq d) <= d).
  { apply qlround_bounds; rewrite Qmult_comm; assumption. }
  lia.
Qed.

Lemma soil_split g i w t u w' t' d t1 s :
  multi_dispersers_from g i w t = Ok (d, w, t1) -> 0 < d -> w_soil w = Some s ->
  generate_body g i w t = Ok (u, w', t') ->
  let to_soil := qlround (g_soil_pct g * zq d) in
  nth_error (w_disp w') i = Some (d - to_soil) /\ nth_error (w_estab w') i = Some 0 /\
  to_soil + (d - to_soil) = d /\
  ((0 <= g_soil_pct g <= 1)%Q -> 0 <= to_soil <= d /\ 0 <= d - to_soil <= d).
Proof.
  intros E Hd Hs H. cbv zeta. apply generate_body_spec in H as (d0 & t2 & E0 & _ & _ & Hw & He & _).
  rewrite E in E0. injection E0 as <- <-.
  unfold disp_written in Hw. rewrite Hs in Hw. destruct (Z.gtb_spec d 0) as [_|]; [|lia].
  split; [exact Hw|]. split; [exact He|]. split; [lia|].
  intros Hp. destruct (soil_split_bounds (g_soil_pct g) d ltac:(lia) Hp) as (A & B & _). auto.
Qed.

(* without a soil pool every produced disperser is written *)
Lemma no_soil_all_dispersers g i w t u w' t' d t1 :
  multi_dispersers_from g i w t = Ok (d, w, t1) -> 0 < d -> w_soil w = None ->
  generate_body g i w t = Ok (u, w', t') -> nth_error (w_disp w') i = Some d.
Proof.
  intros E Hd Hs H. apply generate_body_spec in H as (d0 & t2 & E0 & _ & _ & Hw & _).
  rewrite E in E0. injection E0 as <- <-.
  unfold disp_written in Hw. rewrite Hs in Hw. destruct (Z.gtb_spec d 0) as [_|]; [|lia]. exact Hw.
Qed.

(* ================================================================== *)
(* 4. the fate of one disperser                                        *)
(* ================================================================== *)
Lemma set_cell_S k i c c' w t u w' t' : cell_at w k i = Some c ->
  set_cell k i c' w t = Ok (u, w', t') ->
  t' = t /\ w' = with_hosts w (w_hosts w') /\ S_total w' = S_total w - cS c + cS c'.
Proof.
  intros Hc H. apply cell_at_inv in Hc as (h & Hk & Hi). unfold set_cell in H.
  apply bind_inv in H as (h0 & s1 & t1 & G & H). apply get_host_inv in G as (-> & -> & Hk0).
  rewrite Hk in Hk0. injection Hk0 as <-.
  apply bind_inv in H as (cs & s2 & t2 & L & H). apply lift_inv in L as (R1 & -> & ->).
  apply set_host_inv in H as (-> & hs & R2 & ->).
  split; [reflexivity|]. split; [reflexivity|].
  destruct (rset_spec _ _ _ _ R1) as (pre & old & post & Ecs & -> & L1).
  destruct (rset_spec _ _ _ _ R2) as (hpre & hold & hpost & Ehs & -> & L2).
  unfold S_total. cbn [with_hosts w_hosts]. rewrite Ehs in *.
  rewrite <- L2, nth_error_mid in Hk. injection Hk as ->.
  rewrite Ecs, <- L1, nth_error_mid in Hi. injection Hi as ->.
  rewrite !hosts_S_app. cbn [hosts_S hp_cells]. rewrite Ecs, !cells_S_app. cbn [cells_S]. lia.
Qed.

Lemma add_disperser_cases mt c c' n : add_disperser mt c = Ok (c', n) ->
  (cS c <= 0 /\ c' = c /\ n = 0) \/ (0 < cS c /\ n = 1 /\ cS c' = cS c - 1).
Proof.
  unfold add_disperser. intros H. destruct (Z.leb_spec (cS c) 0) as [Hs|Hs].
  - injection H as <- <-. left. auto.
  - right. split; [exact Hs|]. destruct mt.
    + destruct (add_last (cM c) 1); [|discriminate]. cbn [bind] in H. injection H as <- <-. auto.
    + destruct (add_last (cE c) 1); [|discriminate]. cbn [bind] in H. injection H as <- <-. auto.
Qed.

(* one susceptible host of one host pool at cell i became infected/exposed *)
Definition established_at (g : config) (i : nat) (w w' : world) : Prop :=
  exists k c c' hc, cell_at w k i = Some c /\ nth_error (g_hosts g) k = Some hc /\ 0 < cS c /\
    add_disperser (h_mt hc) c = Ok (c', 1) /\
    w' = with_hosts w (w_hosts w') /\
    (forall k' j, cell_at w' k' j = if Nat.eqb k' k && Nat.eqb j i then Some c' else cell_at w k' j) /\
    S_total w' = S_total w - 1.

Lemma host_add_disperser_spec g k i w t n w' t' c :
  host_add_disperser g k i w t = Ok (n, w', t') -> cell_at w k i = Some c -> 0 < cS c ->
  n = 1 /\ t' = t /\ established_at g i w w'.
Proof.
  intros H Hc Hs. unfold host_add_disperser in H.
  apply bind_inv in H as (c0 & s0 & t0 & E & H). apply get_cell_at in E as (-> & -> & Hc0).
  rewrite Hc in Hc0. injection Hc0 as <-.
  apply bind_inv in H as (hc & s0 & t0 & E & H). unfold host_cfg in E. apply lift_inv in E as (Ehc & -> & ->).
  apply rget_Some in Ehc.
  apply bind_inv in H as ([c' n'] & s0 & t0 & E & H). apply lift_inv in E as (Ea & -> & ->).
  apply bind_inv in H as (u & w1 & t1 & Es & H). apply ret_inv in H as (-> & -> & ->).
  cbn [fst snd] in *.
  destruct (add_disperser_cases _ _ _ _ Ea) as [(A & _)|(_ & -> & Hs')]; [lia|].
  destruct (set_cell_S _ _ _ _ _ _ _ _ _ Hc Es) as (-> & Hw & HS).
  split; [reflexivity|]. split; [reflexivity|].
  exists k, c, c', hc. repeat split; try assumption; [|lia].
  exact (set_cell_at _ _ _ _ _ _ _ _ Es).
Qed.

Lemma host_disperser_to_spec g k i w t n w' t' :
  host_disperser_to g k i w t = Ok (n, w', t') ->
  (n = 0 /\ w' = w) \/ (n = 1 /\ established_at g i w w').
Proof.
  intros H. unfold host_disperser_to in H.
  apply bind_inv in H as (c & s0 & t0 & E & H). apply get_cell_at in E as (-> & -> & Hc).
  destruct (Z.leb_spec (cS c) 0) as [|Hs]; [apply ret_inv in H as (-> & -> & _); left; auto|].
  apply bind_inv in H as (hc & s0 & t0 & E & H). apply ro_host_cfg in E. subst s0.
  apply bind_inv in H as (p & s0 & t1 & E & H). apply ro_suitability_at in E. subst s0.
  apply bind_inv in H as (est & s0 & t2 & E & H). apply ro_can_establish in E. subst s0.
  destruct est; [|apply ret_inv in H as (-> & -> & _); left; auto].
  right. destruct (host_add_disperser_spec _ _ _ _ _ _ _ _ _ H Hc Hs) as (-> & _ & He). auto.
Qed.

(* MultiHostPool::disperser_to: at most one host of the cell takes the
   disperser, and then exactly one susceptible becomes infected/exposed *)
Lemma multi_disperser_to_spec g i w t est w' t' :
  multi_disperser_to g i w t = Ok (est, w', t') ->
  (est = 0 /\ w' = w) \/ (est = 1 /\ established_at g i w w').
Proof.
  intros H. unfold multi_disperser_to in H.
  apply bind_inv in H as (n & s0 & t0 & E & H). apply ro_num_hosts in E. subst s0.
  destruct (Nat.eqb n 0); [discriminate H|].
  apply bind_inv in H as (npop & s0 & t1 & E & H). apply ro_total_population_at in E. subst s0.
  destruct (npop =? 0).
  - apply bind_inv in H as (wz & s0 & t2 & E & H).
    assert (s0 = w) as ->.
    { destruct (g_weather g); [|apply ret_inv in E; tauto].
      apply bind_inv in E as (wc & s1 & t3 & E1 & E2). apply ro_weather_at in E1. subst s1.
      apply ret_inv in E2. tauto. }
    apply bind_inv in H as (u & s0 & t3 & E1 & H). apply ret_inv in H as (-> & -> & _).
    match type of E1 with for_hosts ?k0 ?n0 ?f0 _ _ = Ok _ =>
      assert (RO : read_only (for_hosts k0 n0 f0))
        by (apply for_hosts_ro; intros j; ro; try apply ro_get_cell; try apply ro_host_cfg) end.
    apply RO in E1. left. auto.
  - apply bind_inv in H as (ws & s0 & t2 & E & H). apply ro_suitabilities in E. subst s0.
    destruct (Qle_bool (qsum ws) 0); [apply ret_inv in H as (-> & -> & _); left; auto|].
    destruct (qltb 1 (qsum ws)); [discriminate H|].
    apply bind_inv in H as (k & s0 & t3 & E & H). apply ro_pick_host in E. subst s0.
    destruct (g_arrival_land g); [|exact (host_disperser_to_spec _ _ _ _ _ _ _ _ H)].
    apply bind_inv in H as (c & s0 & t4 & E & H). apply get_cell_at in E as (-> & -> & Hc).
    destruct (Z.leb_spec (cS c) 0) as [|Hs]; [apply ret_inv in H as (-> & -> & _); left; auto|].
    apply bind_inv in H as (e & s0 & t5 & E & H). apply ro_can_establish in E. subst s0.
    destruct e; [|apply ret_inv in H as (-> & -> & _); left; auto].
    right. destruct (host_add_disperser_spec _ _ _ _ _ _ _ _ _ H Hc Hs) as (-> & _ & He). auto.
Qed.

Lemma established_at_fields g i w w' : established_at g i w w' ->
  w_disp w' = w_disp w /\ w_estab w' = w_estab w /\ w_outside w' = w_outside w /\
  w_soil w' = w_soil w /\ S_total w' = S_total w - 1.
Proof.
  intros (k & c & c' & hc & _ & _ & _ & _ & Hw & _ & HS). rewrite Hw at 1 2 3 4.
  cbn [with_hosts w_disp w_estab w_outside w_soil]. auto.
Qed.

(* the three fates of a disperser leaving cell (ri, ci), index i *)
Definition od_outside (g : config) (row col : Z) (i : nat) (w w' : world) : Prop :=
  is_outside g row col = true /\ w_outside w' = w_outside w ++ [(row, col)] /\
  w_hosts w' = w_hosts w /\ w_estab w' = w_estab w.
Definition od_lost (g : config) (row col : Z) (i : nat) (w w' : world) : Prop :=
  is_outside g row col = false /\ w' = w.
Definition od_established (g : config) (row col : Z) (i : nat) (w w' : world) : Prop :=
  is_outside g row col = false /\ S_total w' = S_total w - 1 /\
  w_estab w' = incr_at (w_estab w) i /\ (i < length (w_estab w))%nat /\
  w_outside w' = w_outside w /\
  exists tgt w1, idx_of g row col = Ok tgt /\ established_at g tgt w w1 /\ w_hosts w' = w_hosts w1.

Theorem one_disperser_cases g ri ci i w t u w' t' :
  one_disperser g ri ci i w t = Ok (u, w', t') ->
  exists row col t1, t = EvKernel ri ci row col :: t1 /\
    w_disp w' = w_disp w /\ w_soil w' = w_soil w /\
    (od_outside g row col i w w' \/ od_lost g row col i w w' \/ od_established g row col i w w').
Proof.
  intros H. unfold one_disperser in H.
  apply bind_inv in H as (e & s0 & t1 & E & H). apply pop_inv in E as (-> & ->).
  destruct e as [| | |i0 j0 row col| | | | |]; try discriminate H.
  destruct ((i0 =? ri) && (j0 =? ci)) eqn:Eij; [|discriminate H]. cbn [negb] in H.
  apply andb_true_iff in Eij as (Ei & Ej). apply Z.eqb_eq in Ei, Ej. subst i0 j0.
  exists row, col, t1. split; [reflexivity|].
  destruct (is_outside g row col) eqn:Eo.
  - apply bind_inv in H as (w0 & s0 & t2 & E & H). apply get_inv in E as (-> & -> & ->).
    apply put_inv in H as (-> & _). cbn [upd_outside w_disp w_soil].
    split; [reflexivity|]. split; [reflexivity|]. left. unfold od_outside.
    cbn [upd_outside w_outside w_hosts w_estab]. auto.
  - apply bind_inv in H as (tgt & s0 & t2 & E & H). apply lift_inv in E as (Et & -> & ->).
    apply bind_inv in H as (est & w1 & t3 & E & H).
    apply multi_disperser_to_spec in E as [(-> & ->)|(-> & He)].
    + change (0 =? 0) with true in H. cbv iota in H. apply ret_inv in H as (_ & -> & _).
      split; [reflexivity|]. split; [reflexivity|]. right; left. split; [exact Eo|reflexivity].
    + change (1 =? 0) with false in H. cbv iota in H. apply bind_inv in H as (w0 & s0 & t4 & E & H). apply get_inv in E as (-> & -> & ->).
      apply bind_inv in H as (cur & s0 & t5 & E & H). apply lift_inv in E as (Ecur & -> & ->).
      apply rget_Some in Ecur. apply set_estab_inv in H as (_ & r & R & ->).
      destruct (established_at_fields _ _ _ _ He) as (F1 & F2 & F3 & F4 & F5).
      rewrite F2 in Ecur, R. destruct (rset_incr _ _ _ _ Ecur R) as (-> & Hlt).
      cbn [upd_estab w_disp w_soil]. split; [exact F1|]. split; [exact F4|]. right; right.
      unfold od_established, S_total. cbn [upd_estab w_hosts w_estab w_outside].
      split; [exact Eo|]. split; [exact F5|]. split; [reflexivity|]. split; [exact Hlt|].
      split; [exact F3|]. exists tgt, w1. auto.
Qed.

(* the three fates exclude each other *)
Lemma one_disperser_exclusive g row col i w w' :
  ~ (od_outside g row col i w w' /\ od_lost g row col i w w') /\
  ~ (od_outside g row col i w w' /\ od_established g row col i w w') /\
  ~ (od_lost g row col i w w' /\ od_established g row col i w w').
Proof.
  unfold od_outside, od_lost, od_established. repeat split.
  - intros ((A & _) & (B & _)). congruence.
  - intros ((A & _) & (B & _)). congruence.
  - intros ((_ & ->) & (_ & B & _)). lia.
Qed.

(* consequences used below *)
Lemma one_disperser_balance g ri ci i w t u w' t' :
  one_disperser g ri ci i w t = Ok (u, w', t') ->
  S_total w' + estab_total w' = S_total w + estab_total w /\
  w_disp w' = w_disp w /\ w_soil w' = w_soil w.
Proof.
  intros H. apply one_disperser_cases in H as (row & col & t1 & _ & Hd & Hs & Hc).
  split; [|auto]. unfold estab_total.
  destruct Hc as [(_ & _ & A & B)|[(_ & ->)|(_ & A & B & C & _)]].
  - unfold S_total. rewrite A, B. reflexivity.
  - reflexivity.
  - rewrite A, B, (incr_at_sum _ _ C). lia.
Qed.

(* ================================================================== *)
(* 5. balance of SpreadAction::disperse                                *)
(* ================================================================== *)
Definition disperse_body (g : config) (ri ci : Z) (i : nat) : W unit :=
  let* w := get in
  let* d := lift (rget (w_disp w) i) in
  mrepeat (Z.to_nat d) (one_disperser g ri ci i) ;;
  match w_soil w with
  | Some _ =>
    let* n := soil_dispersers_from g i in
    mrepeat (Z.to_nat n) (let* _ := multi_disperser_to g i in ret tt)
  | None => ret tt
  end.

Lemma act_disperse_body g : act_disperse g = for_suitable g (disperse_body g).
Proof. reflexivity. Qed.

(* susceptibles consumed = established gained; dispersers and soil untouched *)
Definition balanced (w w' : world) : Prop :=
  S_total w' + estab_total w' = S_total w + estab_total w /\
  w_disp w' = w_disp w /\ w_soil w' = w_soil w.
(* with a soil pool: susceptibles may also be consumed by dispersers from the soil *)
Definition balanced_le (w w' : world) : Prop :=
  S_total w' + estab_total w' <= S_total w + estab_total w /\ w_disp w' = w_disp w.

Lemma balanced_refl : rrefl balanced.
Proof. intros w. unfold balanced. auto. Qed.
Lemma balanced_trans : rtrans balanced.
Proof. intros a b c (A1 & A2 & A3) (B1 & B2 & B3). unfold balanced. repeat split; [lia|congruence|congruence]. Qed.
Lemma balanced_le_refl : rrefl balanced_le.
Proof. intros w. unfold balanced_le. split; [lia|reflexivity]. Qed.
Lemma balanced_le_trans : rtrans balanced_le.
Proof. intros a b c (A1 & A2) (B1 & B2). unfold balanced_le. split; [lia|congruence]. Qed.
Lemma balanced_balanced_le w w' : balanced w w' -> balanced_le w w'.
Proof. intros (A & B & _). split; [lia|exact B]. Qed.

Lemma one_disperser_balanced g ri ci i : wrel balanced (one_disperser g ri ci i).
Proof. intros w t u w' t' H. exact (one_disperser_balance _ _ _ _ _ _ _ _ _ H). Qed.

Lemma disperse_body_balanced g ri ci i w t u w' t' :
  disperse_body g ri ci i w t = Ok (u, w', t') -> w_soil w = None -> balanced w w'.
Proof.
  intros H Hs. unfold disperse_body in H.
  apply bind_inv in H as (w0 & s0 & t0 & E & H). apply get_inv in E as (-> & -> & ->).
  apply bind_inv in H as (d & s0 & t0 & E & H). apply lift_inv in E as (_ & -> & ->).
  apply bind_inv in H as (u0 & w1 & t1 & E & H). rewrite Hs in H. apply ret_inv in H as (_ & -> & _).
  exact (wrel_mrepeat balanced _ _ balanced_refl balanced_trans (one_disperser_balanced g ri ci i) _ _ _ _ _ E).
Qed.

Lemma multi_disperser_to_balanced_le g i : wrel balanced_le (let* _ := multi_disperser_to g i in ret tt).
Proof.
  intros w t u w' t' H. apply bind_inv in H as (est & w1 & t1 & E & H). apply ret_inv in H as (_ & -> & _).
  apply multi_disperser_to_spec in E as [(_ & ->)|(_ & He)]; [apply balanced_le_refl|].
  destruct (established_at_fields _ _ _ _ He) as (F1 & F2 & _ & _ & F5).
  unfold balanced_le, estab_total. rewrite F2. split; [lia|exact F1].
Qed.

Lemma disperse_body_balanced_le g ri ci i : wrel balanced_le (disperse_body g ri ci i).
Proof.
  intros w t u w' t' H. unfold disperse_body in H.
  apply bind_inv in H as (w0 & s0 & t0 & E & H). apply get_inv in E as (-> & -> & ->).
  apply bind_inv in H as (d & s0 & t0 & E & H). apply lift_inv in E as (_ & -> & ->).
  apply bind_inv in H as (u0 & w1 & t1 & E & H).
  apply (wrel_mrepeat balanced _ _ balanced_refl balanced_trans (one_disperser_balanced g ri ci i)) in E.
  apply balanced_balanced_le in E. eapply balanced_le_trans; [exact E|].
  destruct (w_soil w); [|apply ret_inv in H as (_ & -> & _); apply balanced_le_refl].
  apply bind_inv in H as (n & w2 & t2 & E2 & H).
  apply soil_dispersers_from_soil_only in E2. destruct E2 as (A1 & A2 & A3 & _).
  eapply balanced_le_trans.
  - unfold balanced_le, S_total, estab_total. rewrite A1, A2, A3. split; [apply Z.le_refl|reflexivity].
  - exact (wrel_mrepeat balanced_le _ _ balanced_le_refl balanced_le_trans (multi_disperser_to_balanced_le g i) _ _ _ _ _ H).
Qed.

(* without a soil pool: exact balance *)
Theorem disperse_balance g w t u w' t' :
  act_disperse g w t = Ok (u, w', t') -> w_soil w = None ->
  S_total w' + estab_total w' = S_total w + estab_total w /\ w_disp w' = w_disp w.
Proof.
  intros H Hs. rewrite act_disperse_body in H.
  assert (HR : wrel (fun a b => w_soil a = None -> balanced a b) (for_suitable g (disperse_body g))).
  { apply wrel_for_suitable.
    - intros a _. apply balanced_refl.
    - intros a b c Hab Hbc Ha. specialize (Hab Ha). eapply balanced_trans; [exact Hab|].
      apply Hbc. destruct Hab as (_ & _ & ->). exact Ha.
    - intros r c i a ta x b tb Hb Ha. eapply disperse_body_balanced; eauto. }
  destruct (HR _ _ _ _ _ H Hs) as (A & B & _). auto.
Qed.

(* with or without a soil pool: susceptibles consumed >= established gained *)
Theorem disperse_balance_soil g w t u w' t' :
  act_disperse g w t = Ok (u, w', t') ->
  S_total w' + estab_total w' <= S_total w + estab_total w /\ w_disp w' = w_disp w.
Proof.
  intros H. rewrite act_disperse_body in H.
  exact (wrel_for_suitable balanced_le g _ balanced_le_refl balanced_le_trans
           (disperse_body_balanced_le g) _ _ _ _ _ H).
Qed.

(* ================================================================== *)
(* 6. established dispersers never exceed the dispersers sent          *)
(* ================================================================== *)
(* at most n more established at position i, nothing elsewhere *)
Definition estab_step (i : nat) (n : Z) (w w' : world) : Prop :=
  w_disp w' = w_disp w /\
  (forall j, j <> i -> nth j (w_estab w') 0 = nth j (w_estab w) 0) /\
  nth i (w_estab w) 0 <= nth i (w_estab w') 0 <= nth i (w_estab w) 0 + n.

Lemma one_disperser_estab_step g ri ci i w t u w' t' :
  one_disperser g ri ci i w t = Ok (u, w', t') -> estab_step i 1 w w'.
Proof.
  intros H. apply one_disperser_cases in H as (row & col & t1 & _ & Hd & _ & Hc).
  unfold estab_step. split; [exact Hd|].
  destruct Hc as [(_ & _ & _ & ->)|[(_ & ->)|(_ & _ & -> & C & _)]].
  - split; [reflexivity|lia].
  - split; [reflexivity|lia].
  - split.
    + intros j Hj. rewrite (incr_at_nth _ _ _ C). apply Nat.eqb_neq in Hj. rewrite Hj. lia.
    + rewrite (incr_at_nth _ _ _ C), Nat.eqb_refl. lia.
Qed.

Lemma mrepeat_estab_step g ri ci i : forall n w t u w' t',
  mrepeat n (one_disperser g ri ci i) w t = Ok (u, w', t') -> estab_step i (Z.of_nat n) w w'.
Proof.
  induction n as [|n IH]; intros w t u w' t' H; cbn [mrepeat] in H.
  - apply ret_inv in H as (_ & -> & _). unfold estab_step. split; [reflexivity|]. split; [reflexivity|lia].
  - apply bind_inv in H as (u0 & w1 & t1 & E & H).
    apply one_disperser_estab_step in E as (A1 & A2 & A3). apply IH in H as (B1 & B2 & B3).
    unfold estab_step. split; [congruence|]. split.
    + intros j Hj. rewrite (B2 j Hj). apply A2. exact Hj.
    + lia.
Qed.

(* neither the dispersers nor the established raster change *)
Definition pest_same (w w' : world) : Prop := w_disp w' = w_disp w /\ w_estab w' = w_estab w.
Lemma pest_same_refl : rrefl pest_same.
Proof. intros w. split; reflexivity. Qed.
Lemma pest_same_trans : rtrans pest_same.
Proof. intros a b c (A1 & A2) (B1 & B2). split; congruence. Qed.

Lemma multi_disperser_to_pest_same g i : wrel pest_same (let* _ := multi_disperser_to g i in ret tt).
Proof.
  intros w t u w' t' H. apply bind_inv in H as (est & w1 & t1 & E & H). apply ret_inv in H as (_ & -> & _).
  apply multi_disperser_to_spec in E as [(_ & ->)|(_ & He)]; [apply pest_same_refl|].
  destruct (established_at_fields _ _ _ _ He) as (F1 & F2 & _). split; assumption.
Qed.

Lemma disperse_body_estab_step g ri ci i w t u w' t' :
  disperse_body g ri ci i w t = Ok (u, w', t') ->
  estab_step i (Z.max 0 (nth i (w_disp w) 0)) w w'.
Proof.
  intros H. unfold disperse_body in H.
  apply bind_inv in H as (w0 & s0 & t0 & E & H). apply get_inv in E as (-> & -> & ->).
  apply bind_inv in H as (d & s0 & t0 & E & H). apply lift_inv in E as (Ed & -> & ->).
  apply rget_Some, nth_error_nth_Z in Ed. rewrite Ed.
  apply bind_inv in H as (u0 & w1 & t1 & E & H).
  apply mrepeat_estab_step in E. replace (Z.of_nat (Z.to_nat d)) with (Z.max 0 d) in E by lia.
  assert (P : pest_same w1 w').
  { destruct (w_soil w); [|apply ret_inv in H as (_ & -> & _); apply pest_same_refl].
    apply bind_inv in H as (n & w2 & t2 & E2 & H).
    apply soil_dispersers_from_soil_only in E2. destruct E2 as (_ & A2 & A3 & _).
    eapply pest_same_trans; [split; eassumption|].
    exact (wrel_mrepeat pest_same _ _ pest_same_refl pest_same_trans (multi_disperser_to_pest_same g i) _ _ _ _ _ H). }
  destruct P as (P1 & P2). destruct E as (A1 & A2 & A3). unfold estab_step. rewrite P1, P2. auto.
Qed.

Lemma idx_of_inj g r c r' c' i : idx_of g r c = Ok i -> idx_of g r' c' = Ok i -> r = r' /\ c = c'.
Proof.
  unfold idx_of. intros H1 H2.
  destruct ((r <? 0) || (r >=? g_rows g) || (c <? 0) || (c >=? g_cols g)) eqn:B1; [discriminate|].
  destruct ((r' <? 0) || (r' >=? g_rows g) || (c' <? 0) || (c' >=? g_cols g)) eqn:B2; [discriminate|].
  injection H1 as H1. injection H2 as H2. rewrite <- H2 in H1. clear H2.
  assert (E : r * g_cols g + c = r' * g_cols g + c') by nia.
  assert (r = r') by nia. subst r'. split; [reflexivity|lia].
Qed.

(* the loop of SpreadAction::disperse over a duplicate-free list of cells *)
Definition touched (g : config) (l : list (Z * Z)) (j : nat) : Prop :=
  exists rc, In rc l /\ idx_of g (fst rc) (snd rc) = Ok j.

Lemma disperse_loop_estab g : forall l w t u w' t', NoDup l ->
  mfold (fun rc => let* i := lift (idx_of g (fst rc) (snd rc)) in disperse_body g (fst rc) (snd rc) i) l w t
    = Ok (u, w', t') ->
  w_disp w' = w_disp w /\
  forall j, (touched g l j ->
             nth j (w_estab w) 0 <= nth j (w_estab w') 0 <= nth j (w_estab w) 0 + Z.max 0 (nth j (w_disp w) 0)) /\
            (~ touched g l j -> nth j (w_estab w') 0 = nth j (w_estab w) 0).
Proof.
  induction l as [|rc r IH]; intros w t u w' t' ND H; cbn [mfold] in H.
  - apply ret_inv in H as (_ & -> & _). split; [reflexivity|]. intros j. split; [|reflexivity].
    intros (rc & [] & _).
  - inversion ND as [|? ? Hnin ND']; subst.
    apply bind_inv in H as (u0 & w1 & t1 & E & H).
    apply bind_inv in E as (i & s0 & t0 & Ei & E). apply lift_inv in Ei as (Ei & -> & ->).
    apply disperse_body_estab_step in E as (A1 & A2 & A3).
    destruct (IH _ _ _ _ _ ND' H) as (B1 & B2).
    split; [congruence|]. intros j.
    assert (Hi : ~ touched g r i).
    { intros (rc' & Hin & Hidx). destruct (idx_of_inj _ _ _ _ _ _ Ei Hidx) as (F1 & F2).
      apply Hnin. destruct rc as [a b], rc' as [a' b']. cbn [fst snd] in *. subst. exact Hin. }
    split.
    + intros (rc' & [<-|Hin] & Hidx).
      * rewrite Ei in Hidx. injection Hidx as <-. rewrite (proj2 (B2 i) Hi). exact A3.
      * assert (Hj : j <> i) by (intros ->; apply Hi; exists rc'; auto).
        assert (Tj : touched g r j) by (exists rc'; auto).
        pose proof (proj1 (B2 j) Tj) as B. rewrite (A2 j Hj), A1 in B. exact B.
    + intros Hn. assert (Hj : j <> i) by (intros ->; apply Hn; exists rc; split; [left; reflexivity|exact Ei]).
      assert (Tj : ~ touched g r j) by (intros (rc' & Hin & Hidx); apply Hn; exists rc'; split; [right; exact Hin|exact Hidx]).
      rewrite (proj2 (B2 j) Tj). apply A2. exact Hj.
Qed.

(* general form: what disperse adds at a suitable cell is at most the
   (non-negative part of the) dispersers of that cell; other cells keep their value *)
Theorem established_increase_le g w t u w' t' h0 :
  act_disperse g w t = Ok (u, w', t') ->
  nth_error (w_hosts w) 0 = Some h0 -> NoDup (hp_suitable h0) ->
  forall j, (touched g (hp_suitable h0) j ->
             nth j (w_estab w) 0 <= nth j (w_estab w') 0 <= nth j (w_estab w) 0 + Z.max 0 (nth j (w_disp w) 0)) /\
            (~ touched g (hp_suitable h0) j -> nth j (w_estab w') 0 = nth j (w_estab w) 0).
Proof.
  intros H Hh ND. rewrite act_disperse_body in H. unfold for_suitable in H.
  apply bind_inv in H as (cells & s0 & t0 & E & H). unfold suitable_cells in E.
  apply bind_inv in E as (h & s1 & t1 & E1 & E2). apply get_host_inv in E1 as (-> & -> & Hh').
  apply ret_inv in E2 as (-> & -> & ->). rewrite Hh in Hh'. injection Hh' as <-.
  exact (proj2 (disperse_loop_estab g _ _ _ _ _ _ ND H)).
Qed.

Theorem established_le_dispersers g w t u w' t' h0 :
  act_disperse g w t = Ok (u, w', t') ->
  nth_error (w_hosts w) 0 = Some h0 -> NoDup (hp_suitable h0) ->
  rnonneg (w_disp w) ->
  (forall rc i, In rc (hp_suitable h0) -> idx_of g (fst rc) (snd rc) = Ok i -> nth i (w_estab w) 0 = 0) ->
  forall rc i, In rc (hp_suitable h0) -> idx_of g (fst rc) (snd rc) = Ok i ->
    nth i (w_estab w') 0 <= nth i (w_disp w) 0.
Proof.
  intros H Hh ND Hd Hz rc i Hin Hidx.
  destruct (established_increase_le _ _ _ _ _ _ _ H Hh ND i) as (A & _).
  assert (T : touched g (hp_suitable h0) i) by (exists rc; auto).
  specialize (A T). rewrite (Hz rc i Hin Hidx) in A. pose proof (rnonneg_nth _ i Hd). lia.
Qed.

(* under the same hypotheses the established count is also non-negative *)
Lemma established_nonneg_after g w t u w' t' h0 :
  act_disperse g w t = Ok (u, w', t') ->
  nth_error (w_hosts w) 0 = Some h0 -> NoDup (hp_suitable h0) ->
  (forall rc i, In rc (hp_suitable h0) -> idx_of g (fst rc) (snd rc) = Ok i -> nth i (w_estab w) 0 = 0) ->
  forall rc i, In rc (hp_suitable h0) -> idx_of g (fst rc) (snd rc) = Ok i ->
    0 <= nth i (w_estab w') 0.
Proof.
  intros H Hh ND Hz rc i Hin Hidx.
  destruct (established_increase_le _ _ _ _ _ _ _ H Hh ND i) as (A & _).
  assert (T : touched g (hp_suitable h0) i) by (exists rc; auto).
  specialize (A T). rewrite (Hz rc i Hin Hidx) in A. lia.
Qed.

(* why item 6 needs the no-duplicates hypothesis: a cell listed twice sends its
   dispersers twice (1 disperser in the raster, 2 established) *)
Definition dup_cfg : config :=
  mkconfig 1 1 [mkhostcfg SI 0 true 1 true 1 None] false true 1 None false 0 false false 1 1 1 0.
Definition dup_world : world :=
  mkworld [mkhp [mkcell 5 [] 0 0 0 [0] 0 5] [(0, 0); (0, 0)]] [1] [0] [] None None None None None 0.
Definition dup_tape : tape :=
  [EvKernel 0 0 0 0; EvEstablish 0 1 true; EvKernel 0 0 0 0; EvEstablish 0 (4 # 5) true].

Example duplicates_refute_bound :
  exists w', act_disperse dup_cfg dup_world dup_tape = Ok (tt, w', []) /\
    rnonneg (w_disp dup_world) /\ nth 0 (w_estab dup_world) 0 = 0 /\
    nth 0 (w_disp dup_world) 0 = 1 /\ nth 0 (w_estab w') 0 = 2 /\
    S_total w' + estab_total w' = S_total dup_world + estab_total dup_world.
Proof.
  eexists. split; [vm_compute; reflexivity|]. vm_compute.
  split; [repeat constructor; discriminate|]. repeat split; reflexivity.
Qed.

(* ================================================================== *)
(* 7. soil cohorts age out                                             *)
(* ================================================================== *)
(* SoilPool::next_step on the cohorts of one cell *)
Definition soil_next (cs : list Z) : list Z := match cs with [] => [] | _ :: r => r ++ [0] end.

Lemma act_soil_next_cells w :
  act_soil_next w = match w_soil w with None => w | Some s => upd_soil w (Some (map soil_next s)) end.
Proof. reflexivity. Qed.

Lemma soil_next_length cs : length (soil_next cs) = length cs.
Proof. destruct cs as [|x r]; [reflexivity|]. cbn [soil_next]. rewrite app_length. cbn [length]. lia. Qed.

Lemma repeat_snoc {A} (a : A) n : repeat a n ++ [a] = a :: repeat a n.
Proof. induction n as [|n IH]; [reflexivity|]. cbn [repeat app]. rewrite IH. reflexivity. Qed.

Lemma soil_next_iter : forall j cs, (j <= length cs)%nat ->
  Nat.iter j soil_next cs = skipn j cs ++ repeat 0 j.
Proof.
  induction j as [|j IH]; intros cs Hj.
  - change (Nat.iter 0 soil_next cs) with cs. cbn [skipn repeat]. rewrite app_nil_r. reflexivity.
  - change (Nat.iter (S j) soil_next cs) with (soil_next (Nat.iter j soil_next cs)). rewrite IH by lia.
    destruct (skipn j cs) as [|x r] eqn:E.
    + exfalso. assert (L : length (skipn j cs) = 0%nat) by (rewrite E; reflexivity).
      rewrite skipn_length in L. lia.
    + assert (E' : skipn (S j) cs = r).
      { clear - E. revert cs E. induction j as [|j IHj]; intros cs E.
        - cbn [skipn] in E. subst cs. reflexivity.
        - destruct cs as [|y cs]; [discriminate|]. cbn [skipn] in E. apply IHj in E. exact E. }
      rewrite E'. cbn [app soil_next repeat]. rewrite <- app_assoc. f_equal. apply repeat_snoc.
Qed.

Theorem soil_ages_out cs : Nat.iter (length cs) soil_next cs = repeat 0 (length cs).
Proof. rewrite soil_next_iter by lia. rewrite skipn_all. reflexivity. Qed.

Lemma nth_skipn_Z (l : list Z) : forall j i, nth i (skipn j l) 0 = nth (j + i) l 0.
Proof.
  induction l as [|x r IH]; intros [|j] i; cbn [skipn nth plus]; try reflexivity.
  - destruct i; reflexivity.
  - apply IH.
Qed.

(* the youngest cohort moves one position towards the front with every step *)
Lemma soil_cohort_position cs j : (j < length cs)%nat ->
  nth (length cs - 1 - j) (Nat.iter j soil_next cs) 0 = nth (length cs - 1) cs 0.
Proof.
  intros Hj. rewrite soil_next_iter by lia.
  rewrite app_nth1 by (rewrite skipn_length; lia).
  rewrite nth_skipn_Z. f_equal. lia.
Qed.

(* a unit added to the youngest cohort is still there after j < length steps *)
Theorem soil_unit_tracked cs cs' j : add_last cs 1 = Ok cs' -> (j < length cs)%nat ->
  nth (length cs - 1 - j) (Nat.iter j soil_next cs') 0 = nth (length cs - 1) cs 0 + 1 /\
  nth (length cs - 1 - j) (Nat.iter j soil_next cs') 0 =
    nth (length cs - 1 - j) (Nat.iter j soil_next cs) 0 + 1.
Proof.
  intros Ha Hj. destruct (add_last_inv _ _ _ Ha) as (init & y & -> & ->).
  assert (L : length (init ++ [y + 1]) = length (init ++ [y])) by (rewrite !app_length; reflexivity).
  pose proof (soil_cohort_position (init ++ [y + 1]) j) as P1. rewrite L in P1. specialize (P1 Hj).
  pose proof (soil_cohort_position (init ++ [y]) j Hj) as P2.
  rewrite P1, P2. rewrite app_length. cbn [length].
  replace (length init + 1 - 1)%nat with (length init) by lia.
  rewrite !app_nth2 by lia. rewrite Nat.sub_diag. cbn [nth]. lia.
Qed.

(* and after length cs steps nothing of it is left *)
Lemma soil_unit_gone cs cs' : add_last cs 1 = Ok cs' ->
  Nat.iter (length cs) soil_next cs' = repeat 0 (length cs).
Proof.
  intros Ha. destruct (add_last_sum _ _ _ Ha) as (_ & L). rewrite <- L. apply soil_ages_out.
Qed.

(* ================================================================== *)
(* 8. the pest-pool rasters and the soil cohorts stay non-negative     *)
(* ================================================================== *)
Definition soil_nonneg (w : world) : Prop :=
  match w_soil w with Some s => Forall rnonneg s | None => True end.
Definition PP (w : world) : Prop := rnonneg (w_disp w) /\ rnonneg (w_estab w) /\ soil_nonneg w.

Lemma PP_ext w w' : w_disp w' = w_disp w -> w_estab w' = w_estab w -> w_soil w' = w_soil w -> PP w -> PP w'.
Proof. intros A B C (P1 & P2 & P3). unfold PP, soil_nonneg in *. rewrite A, B, C. auto. Qed.

Lemma incr_at_nonneg l : forall i, rnonneg l -> rnonneg (incr_at l i).
Proof.
  induction l as [|x r IH]; intros [|i] H; cbn [incr_at]; try exact H.
  - inversion H; subst. constructor; [lia|assumption].
  - inversion H; subst. constructor; [assumption|]. apply IH. assumption.
Qed.

Lemma set_disp_PP i v : 0 <= v -> hoare PP (set_raster_at w_disp upd_disp i v) (fun _ w => PP w).
Proof.
  intros Hv w t u w' t' (P1 & P2 & P3) H. apply set_disp_inv in H as (_ & r & R & ->).
  unfold PP, soil_nonneg in *. cbn [upd_disp w_disp w_estab w_soil]. split; [|auto].
  exact (rset_Forall _ _ _ _ _ P1 Hv R).
Qed.

Lemma set_estab_PP i v : 0 <= v -> hoare PP (set_raster_at w_estab upd_estab i v) (fun _ w => PP w).
Proof.
  intros Hv w t u w' t' (P1 & P2 & P3) H. apply set_estab_inv in H as (_ & r & R & ->).
  unfold PP, soil_nonneg in *. cbn [upd_estab w_disp w_estab w_soil]. split; [exact P1|]. split; [|exact P3].
  exact (rset_Forall _ _ _ _ _ P2 Hv R).
Qed.

(* SoilPool::disperser_to adds one to the youngest cohort *)
Lemma soil_disperser_to_PP g i : hoare PP (soil_disperser_to g i) (fun _ w => PP w).
Proof.
  intros w t u w' t' HP H. unfold soil_disperser_to in H. binv'; try exact HP.
  destruct HP as (P1 & P2 & P3). unfold PP, soil_nonneg in *. cbn [upd_soil w_disp w_estab w_soil].
  split; [exact P1|]. split; [exact P2|].
  match goal with Hs : w_soil _ = Some ?s, Hg : rget ?s i = Ok ?cs, Ha : add_last ?cs 1 = Ok ?cs',
                  Hr : rset ?s i ?cs' = Ok _ |- _ =>
    rewrite Hs in P3; apply rget_Some in Hg;
    eapply (rset_Forall rnonneg); [exact P3| |exact Hr];
    apply (add_last_nonneg cs 1 cs'); [|lia|exact Ha];
    rewrite Forall_forall in P3; apply P3; eapply nth_error_In; exact Hg end.
Qed.

(* SoilPool::dispersers_from subtracts a validated draw *)
Lemma soil_dispersers_from_PP g i : hoare PP (soil_dispersers_from g i) (fun _ w => PP w).
Proof.
  intros w t n w' t' HP H. unfold soil_dispersers_from in H. binv'; try exact HP.
  destruct HP as (P1 & P2 & P3). unfold PP, soil_nonneg in *. cbn [upd_soil w_disp w_estab w_soil].
  split; [exact P1|]. split; [exact P2|].
  match goal with Hs : w_soil _ = Some ?s, Hv : valid_draw ?cs ?d _ = true,
                  Hr : rset ?s i (sub_list ?cs ?d) = Ok _ |- _ =>
    rewrite Hs in P3; eapply (rset_Forall rnonneg); [exact P3| |exact Hr];
    apply valid_draw_spec in Hv as (Hpw & _); exact (sub_list_nonneg _ _ Hpw) end.
Qed.

Lemma multi_disperser_to_PP g i : hoare PP (multi_disperser_to g i) (fun _ w => PP w).
Proof.
  intros w t est w' t' HP H. apply multi_disperser_to_spec in H as [(_ & ->)|(_ & He)]; [exact HP|].
  destruct (established_at_fields _ _ _ _ He) as (F1 & F2 & _ & F4 & _).
  exact (PP_ext _ _ F1 F2 F4 HP).
Qed.

Lemma one_disperser_PP g ri ci i : hoare PP (one_disperser g ri ci i) (fun _ w => PP w).
Proof.
  intros w t u w' t' HP H. apply one_disperser_cases in H as (row & col & t1 & _ & Hd & Hs & Hc).
  destruct Hc as [(_ & _ & _ & He)|[(_ & ->)|(_ & _ & He & _)]].
  - exact (PP_ext _ _ Hd He Hs HP).
  - exact HP.
  - destruct HP as (P1 & P2 & P3). unfold PP, soil_nonneg in *. rewrite Hd, He, Hs.
    split; [exact P1|]. split; [apply incr_at_nonneg; exact P2|exact P3].
Qed.

Lemma generate_body_PP g i : (0 <= g_soil_pct g <= 1)%Q ->
  hoare PP (generate_body g i) (fun _ w => PP w).
Proof.
  intros Hp. unfold generate_body.
  eapply hoare_bind; [apply hoare_ro, ro_multi_dispersers_from|]. intros d.
  destruct (Z.gtb_spec d 0) as [Hd|Hd].
  - eapply hoare_bind; [apply hoare_ro, ro_get|]. intros w0.
    eapply (hoare_bind _ _ _ (fun d' w => 0 <= d' /\ PP w)).
    + destruct (w_soil w0).
      * eapply hoare_bind; [apply hoare_mrepeat, soil_disperser_to_PP|]. intros ?u.
        eapply hoare_conseq; [apply (hoare_ret _ PP)|intros s Hs; exact Hs|].
        intros a s [-> HP]. split; [|exact HP].
        destruct (soil_split_bounds (g_soil_pct g) d ltac:(lia) Hp) as (_ & B & _). lia.
      * eapply hoare_conseq; [apply (hoare_ret _ PP)|intros s Hs; exact Hs|]. intros a s [-> HP]. split; [lia|exact HP].
    + intros d'. apply hoare_pure. intros Hd'.
      eapply hoare_bind; [apply set_disp_PP; exact Hd'|]. intros ?u. apply set_estab_PP. lia.
  - eapply hoare_bind; [apply set_disp_PP; lia|]. intros ?u. apply set_estab_PP. lia.
Qed.

Lemma disperse_body_PP g ri ci i : hoare PP (disperse_body g ri ci i) (fun _ w => PP w).
Proof.
  unfold disperse_body.
  eapply hoare_bind; [apply hoare_ro, ro_get|]. intros w0.
  eapply hoare_bind; [apply hoare_ro, ro_lift|]. intros d.
  eapply hoare_bind; [apply hoare_mrepeat, one_disperser_PP|]. intros ?u.
  destruct (w_soil w0); [|apply hoare_ro, ro_ret].
  eapply hoare_bind; [apply soil_dispersers_from_PP|]. intros n.
  apply hoare_mrepeat. eapply hoare_bind; [apply multi_disperser_to_PP|]. intros ?u. apply hoare_ro, ro_ret.
Qed.

Theorem pest_pool_nonneg_generate g : (0 <= g_soil_pct g <= 1)%Q ->
  hoare PP (act_generate g) (fun _ w => PP w).
Proof. intros Hp. rewrite act_generate_body. apply for_suitable_inv. intros r c i. apply generate_body_PP. exact Hp. Qed.

Theorem pest_pool_nonneg_disperse g : hoare PP (act_disperse g) (fun _ w => PP w).
Proof. rewrite act_disperse_body. apply for_suitable_inv. intros r c i. apply disperse_body_PP. Qed.

(* both actions, in the form of the specification *)
Theorem pest_pool_nonneg g : (0 <= g_soil_pct g <= 1)%Q ->
  hoare PP (act_generate g) (fun _ w => PP w) /\ hoare PP (act_disperse g) (fun _ w => PP w) /\
  hoare PP (act_generate g ;; act_disperse g) (fun _ w => PP w).
Proof.
  intros Hp. split; [apply pest_pool_nonneg_generate; exact Hp|]. split; [apply pest_pool_nonneg_disperse|].
  eapply hoare_bind; [apply pest_pool_nonneg_generate; exact Hp|]. intros ?u. apply pest_pool_nonneg_disperse.
Qed.

(* SoilPool::next_step keeps the cohorts non-negative as well *)
Lemma act_soil_next_PP w : PP w -> PP (act_soil_next w).
Proof.
  intros (P1 & P2 & P3). rewrite act_soil_next_cells. unfold PP, soil_nonneg in *.
  destruct (w_soil w) as [s|] eqn:Es; [|rewrite Es; auto].
  cbn [upd_soil w_disp w_estab w_soil]. split; [exact P1|]. split; [exact P2|].
  clear - P3. induction P3 as [|cs r Hc _ IH]; cbn [map]; constructor; [|exact IH].
  destruct cs as [|x cs]; [constructor|]. cbn [soil_next]. inversion Hc; subst.
  apply Forall_app. split; [assumption|]. constructor; [lia|constructor].
Qed.

Print Assumptions gen_zero.
Print Assumptions generate_cell_zero.
Print Assumptions gen_det.
Print Assumptions soil_split.
Print Assumptions multi_disperser_to_spec.
Print Assumptions one_disperser_cases.
Print Assumptions one_disperser_exclusive.
Print Assumptions disperse_balance.
Print Assumptions disperse_balance_soil.
Print Assumptions established_increase_le.
Print Assumptions established_le_dispersers.
Print Assumptions soil_ages_out.
Print Assumptions soil_unit_tracked.
Print Assumptions pest_pool_nonneg.
Print Assumptions act_soil_next_PP.
