(* C01  Hosts are conserved: only mortality and removal treatments take hosts out.
   Statements only; proofs in RunProps.v (runs), LandProps*.v (actions) and
   CellProps.v (cells).  The conserved quantity is
     whq w = sum over hosts and cells of (S + sum E + I + R) + died,
   i.e. "hosts alive + hosts reported dead".  Every statement holds for every
   tape of random outcomes (every seed), every raster shape, any number of
   hosts, cohorts and steps.  Tie: bin/check C01 (state after every individual
   action of Model::run_step against the extracted model; independent ledger monitor). *)
From Coq Require Import ZArith QArith List.
From Pops Require Import Err Rounding CellDefs CellProps LandDefs MonadProps LandProps ShapeProps LandProps2
     ModelDefs ModelProps RunProps.
Import ListNotations.
Local Open Scope Z_scope.

(* No action ever creates a host: after each individual action of a step (every
   snapshot of the trace) and at its end, hosts alive + died is at most what
   it was (J Basic q bounds whq by q; take q := whq of the initial world), and
   all cell invariants hold. *)
Theorem C01_no_creation_after_each_action : forall lv q ne nm m inp step w t,
  cfg_ok (m_g m) -> inputs_ok inp -> level_ok lv m inp -> J lv q ne nm w ->
  Forall (fun x => J lv q ne nm (snd x)) (snd (run_step m inp step w t)) /\
  (forall tr w' t', fst (run_step m inp step w t) = Ok (tr, w', t') -> J lv q ne nm w').
Proof. exact run_step_J. Qed.
Print Assumptions C01_no_creation_after_each_action.

(* ... over runs of any length *)
Theorem C01_no_creation_run : forall lv q ne nm m inp weather,
  cfg_ok (m_g m) -> (forall s, inputs_ok (inp s)) -> (forall s, level_ok lv m (inp s)) ->
  forall tapes step w w', J lv q ne nm w -> run_many m inp weather tapes step w = Ok w' -> J lv q ne nm w'.
Proof. exact run_many_J. Qed.
Print Assumptions C01_no_creation_run.

(* Exact conservation: in a step in which no removal treatment starts, hosts
   alive + died is unchanged after every individual action - infection,
   latency progression, lethal-temperature and survival-rate removal, pesticide
   application and expiry, overpopulation and host movement only reclassify or
   relocate hosts, and mortality moves hosts from alive to died. *)
Theorem C01_exact_conservation : forall q ne nm m inp step w t,
  cfg_ok (m_g m) -> inputs_ok inp -> no_removal_at step inp ->
  WI Basic q w /\ WS ne nm w ->
  Forall (fun x => WI Basic q (snd x) /\ WS ne nm (snd x)) (snd (run_step m inp step w t)) /\
  (forall tr w' t', fst (run_step m inp step w t) = Ok (tr, w', t') -> WI Basic q w' /\ WS ne nm w').
Proof. exact run_step_conserves. Qed.
Print Assumptions C01_exact_conservation.

(* What a removal treatment takes out of a cell: exactly the rounded-up shares *)
Theorem C01_removal_amount : forall app coef c c', Inv0 c -> (0 <= coef <= 1)%Q ->
  treat_removal app coef c = Ok c' ->
  Inv0 c' /\
  hq c' = hq c - (qceil (get_treated Ratio coef (cS c))
                  + sumZ (map (fun x => qceil (get_treated app coef x)) (cE c))
                  + qceil (get_treated app coef (cI c))) /\
  cD c' = cD c /\ cR c' = cR c /\
  cS c' = cS c - qceil (zq (cS c) * coef) /\
  cE c' = map (fun x => x - qceil (get_treated app coef x)) (cE c) /\
  cI c' = cI c - qceil (get_treated app coef (cI c)) /\
  (0 < qceil (get_treated app coef (cI c)) ->
     cM c' = map (fun x => x - qceil (get_treated app coef x)) (cM c)) /\
  (qceil (get_treated app coef (cI c)) = 0 -> cM c' = cM c).
Proof. exact treat_removal_spec. Qed.
Print Assumptions C01_removal_amount.

(* Mortality: what leaves the living is what is reported as dead *)
Theorem C01_mortality_ledger : forall c rate lag c', Inv0 c -> (0 <= rate <= 1)%Q -> 0 <= lag ->
  apply_mortality c rate lag = Ok c' ->
  Inv0 c' /\ hq c' = hq c /\ cS c' = cS c /\ cE c' = cE c /\ cTE c' = cTE c /\ cR c' = cR c /\
  cD c' - cD c = cI c - cI c' /\ 0 <= cD c' - cD c <= cI c /\
  length (cM c') = length (cM c) /\ (InvM c -> InvM c').
Proof. exact apply_mortality_Inv0. Qed.
Print Assumptions C01_mortality_ledger.

(* host movement relocates: what leaves the source arrives at the destination *)
Theorem C01_movement_relocates : forall lv q ne nm g step moves,
  Forall (fun r => match fst r with [_; _; _; _; count] => 0 <= count | _ => True end) moves ->
  hoare (fun w => WI lv q w /\ WS ne nm w) (act_movement g step moves)
        (fun _ w => WI lv q w /\ WS ne nm w).
Proof. exact act_movement_WI. Qed.
Print Assumptions C01_movement_relocates.

Example C01_nonvacuous : J Eq 17 2 2 demo_world.
Proof. exact demo_world_J. Qed.
Print Assumptions C01_nonvacuous.
