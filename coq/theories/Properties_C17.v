(* C17  Pest overpopulation moves and host moves follow their stated rules.
   Statements only (copied from the lemmas they restate by tools/mkprops.py); proofs in
   MovementProps.v, MoveProps.v, LandProps2.v.  All statements hold for every landscape,
   number of hosts and tape of random outcomes.  Tie: bin/check C17. *)
From Coq Require Import ZArith QArith List Sorting.Sorted.
From Pops Require Import Err Rounding RoundingProps CellDefs CellProps MoveProps LandDefs MonadProps LandProps ShapeProps LandProps2 MovementProps.
Import ListNotations.
Local Open Scope Z_scope.

(* pests leave a cell iff it has at least two infected hosts and infected / (susceptible + infected) reaches the threshold *)
Theorem C17_leaves_iff : forall g ri ci moves w t moves' w' t' i,
  overpop_step g ri ci moves w t = Ok (moves', w', t') -> idx_of g ri ci = Ok i ->
  let orig := field_sum cI i (w_hosts w) in
  let th := field_sum cSI i (w_hosts w) in
  ((exists row col t1, t = EvOKernel ri ci row col :: t1 /\ tape_suffix t' t1) <->
   (2 <= orig /\ Qle_bool (g_overpop_pct g) (zq orig / zq th)%Q = true)) /\
  (~ (2 <= orig /\ Qle_bool (g_overpop_pct g) (zq orig / zq th)%Q = true) ->
   moves' = moves /\ w' = w /\ t' = t).
Proof. exact overpop_leaves_iff. Qed.
Print Assumptions C17_leaves_iff.

(* round(infected x leaving share) go together to the one destination of the one kernel draw; the source's infected turn susceptible; outside the study area they are recorded as outside dispersers, with multiplicity *)
Theorem C17_leaving_count_and_destination : forall g ri ci moves w t moves' w' t' i,
  overpop_step g ri ci moves w t = Ok (moves', w', t') -> idx_of g ri ci = Ok i ->
  let orig := field_sum cI i (w_hosts w) in
  let th := field_sum cSI i (w_hosts w) in
  overpopulated g orig th ->
  exists row col labels leaving,
    let request := qlround (zq orig * g_leaving_pct g) in
    (* one kernel event gives the single destination; one draw splits the count over the hosts *)
    t = EvOKernel ri ci row col :: EvDraw labels :: t' /\
    leaving = draw_total request (pops_at cI i (w_hosts w)) /\
    ((0 <= g_leaving_pct g)%Q -> leaving = Z.min request orig) /\
    ((0 <= g_leaving_pct g <= 1)%Q -> leaving = request) /\
    (* the source: infected decrease, susceptible increase by the number collected *)
    w_hosts w' = hosts_zip i take_pests (w_hosts w) (counts_of labels (length (w_hosts w))) /\
    Forall2 (draw_fits cI i) (counts_of labels (length (w_hosts w))) (w_hosts w) /\
    sumZ (counts_of labels (length (w_hosts w))) = leaving /\
    field_sum cI i (w_hosts w') = orig - leaving /\
    field_sum cS i (w_hosts w') = field_sum cS i (w_hosts w) + leaving /\
    (* the destination *)
    (if is_outside g row col
     then moves' = moves /\
          w_outside w' = w_outside w ++ repeat_pair (Z.to_nat leaving) (row, col) /\
          length (repeat_pair (Z.to_nat leaving) (row, col)) = Z.to_nat leaving /\
          Forall (fun q => q = (row, col)) (repeat_pair (Z.to_nat leaving) (row, col))
     else exists tg, idx_of g row col = Ok tg /\ moves' = moves ++ [(tg, leaving)] /\
                     w_outside w' = w_outside w) /\
    w_disp w' = w_disp w /\ w_estab w' = w_estab w /\ w_soil w' = w_soil w /\
    w_last_index w' = w_last_index w.
Proof. exact overpop_leaving_count. Qed.
Print Assumptions C17_leaving_count_and_destination.

(* all departures are decided before any arrival *)
Theorem C17_two_phase : forall g w t u w' t',
  act_overpopulation g w t = Ok (u, w', t') ->
  exists moves w1 t1,
    (* phase 1: every suitable cell is examined, the moves are only recorded *)
    overpop_departures g w t = Ok (moves, w1, t1) /\
    (exists h0, nth_error (w_hosts w) 0 = Some h0 /\
                overpop_go g (hp_suitable h0) [] w t = Ok (moves, w1, t1)) /\
    Forall (fun mv => 0 <= snd mv) moves /\
    (* phase 2: the recorded moves arrive, in the order recorded *)
    mfold arrive moves w1 t1 = Ok (u, w', t').
Proof. exact overpop_two_phase. Qed.
Print Assumptions C17_two_phase.

(* at the destination as many establish as there are susceptible hosts, the rest die *)
Theorem C17_arrival_clamped : forall tg count w t u w' t',
  0 <= count ->
  arrive (tg, count) w t = Ok (u, w', t') ->
  exists labels,
    let d := counts_of labels (length (w_hosts w)) in
    let x := Z.min count (field_sum cS tg (w_hosts w)) in
    t = EvDraw labels :: t' /\ Forall2 (draw_fits cS tg) d (w_hosts w) /\ sumZ d = x /\
    w' = with_hosts w (hosts_zip tg give_pests (w_hosts w) d) /\
    field_sum cI tg (w_hosts w') = field_sum cI tg (w_hosts w) + x /\
    field_sum cS tg (w_hosts w') = field_sum cS tg (w_hosts w) - x /\
    0 <= x <= count.
Proof. exact arrival_spec. Qed.
Print Assumptions C17_arrival_clamped.

(* the action only reclassifies hosts: all cell invariants and the host total are kept *)
Theorem C17_overpopulation_preserves : forall q g,
  hoare (WI Basic q) (act_overpopulation g) (fun _ w => WI Basic q w).
Proof. exact act_overpopulation_WI_any. Qed.
Print Assumptions C17_overpopulation_preserves.

(* a movement action applies exactly the rows scheduled for its step, from the cursor on, in table order *)
Theorem C17_movement_loop : forall g step rows i w t j w' t',
  movement_loop g step rows i w t = Ok (j, w', t') ->
  j = i + Z.of_nat (length (applicable step rows)) /\
  apply_rows g (applicable step rows) w t = Ok (tt, w', t').
Proof. exact movement_loop_spec. Qed.
Print Assumptions C17_movement_loop.

(* with a non-decreasing schedule each row is applied exactly once, at its scheduled step, in table order *)
Theorem C17_movement_exactly_once : forall g rows n,
  Sorted Z.le (map snd rows) -> Forall (fun r => 0 <= snd r) rows ->
  let due := filter (fun r => snd r <? Z.of_nat n) rows in
  concat (steps_applied rows 0 n) = due /\
  (forall k, Forall (fun r => snd r = Z.of_nat k) (nth k (steps_applied rows 0 n) [])) /\
  meq (run_moves g rows 0 n 0) (apply_rows g due ;; ret (Z.of_nat (length due))).
Proof. exact movement_exactly_once. Qed.
Print Assumptions C17_movement_exactly_once.

(* ... the same for consecutive act_movement calls threading Model::last_index *)
Theorem C17_movement_exactly_once_model : forall g rows n w t,
  Sorted Z.le (map snd rows) -> Forall (fun r => 0 <= snd r) rows -> w_last_index w = 0 ->
  let due := filter (fun r => snd r <? Z.of_nat n) rows in
  run_acts g rows 0 n w t =
  match apply_rows g due w t with
  | Ok (_, w', t') => Ok (tt, upd_last_index w' (Z.of_nat (length due)), t')
  | Err e => Err e
  end.
Proof. exact act_movement_exactly_once. Qed.
Print Assumptions C17_movement_exactly_once_model.

(* min(requested, hosts present) hosts move, drawn without replacement from the source cell's classes together with their cohort membership *)
Theorem C17_moved_is_min : forall g rf cf rt ct count w t moved w' t',
  move_hosts g rf cf rt ct count w t = Ok (moved, w', t') ->
  exists ifrom ito c cto,
    idx_of g rf cf = Ok ifrom /\ idx_of g rt ct = Ok ito /\
    cell_at w 0 ifrom = Some c /\ cell_at w 0 ito = Some cto /\
    moved = Z.min count (cTH c) /\
    (* different cells: total hosts move from the source to the destination *)
    (ito <> ifrom -> exists c' cto',
       cell_at w' 0 ifrom = Some c' /\ cTH c' = cTH c - moved /\
       cell_at w' 0 ito = Some cto' /\ cTH cto' = cTH cto + moved) /\
    (* same cell: nothing changes *)
    (ito = ifrom -> forall k j, cell_at w' k j = cell_at w k j) /\
    (* no other cell of any host changes *)
    (forall k j, (k, j) <> (0%nat, ifrom) -> (k, j) <> (0%nat, ito) -> cell_at w' k j = cell_at w k j) /\
    (* only the hosts are touched *)
    (exists hs, w' = with_hosts w hs) /\
    (* what moved, class by class and cohort by cohort, is a validated draw *)
    exists sm ed im em rm md,
      move_draw_ok c sm ed im em rm md moved /\
      (ito <> ifrom ->
       cell_at w' 0 ifrom = Some (move_out c sm ed im em rm md moved) /\
       cell_at w' 0 ito = Some (move_in cto sm ed im em rm md moved)) /\
      (Inv0 c -> 0 <= count ->
       0 <= moved <= cTH c /\
       0 <= sm <= cS c /\ 0 <= im <= cI c /\ 0 <= em <= cTE c /\ 0 <= rm <= cR c /\
       sm + im + em + rm = moved /\
       pointwise_le ed (cE c) /\ sumZ ed = em /\
       pointwise_le md (cM c) /\ sumZ md = Z.min im (sumZ (cM c))).
Proof. exact moved_is_min. Qed.
Print Assumptions C17_moved_is_min.

(* the destination joins the list of suitable cells *)
Theorem C17_destination_becomes_suitable : forall g rf cf rt ct count w t moved w' t',
  move_hosts g rf cf rt ct count w t = Ok (moved, w', t') ->
  exists ito cto h h',
    idx_of g rt ct = Ok ito /\ cell_at w 0 ito = Some cto /\
    nth_error (w_hosts w) 0 = Some h /\ nth_error (w_hosts w') 0 = Some h' /\
    tl (w_hosts w') = tl (w_hosts w) /\
    hp_suitable h' = suitable_after (cTH cto) rt ct (hp_suitable h) /\
    (* an empty destination is suitable afterwards: appended once if absent *)
    (cTH cto = 0 ->
     In (rt, ct) (hp_suitable h') /\
     (In (rt, ct) (hp_suitable h) -> hp_suitable h' = hp_suitable h) /\
     (~ In (rt, ct) (hp_suitable h) -> hp_suitable h' = hp_suitable h ++ [(rt, ct)])) /\
    (* otherwise the list is unchanged *)
    (cTH cto <> 0 -> hp_suitable h' = hp_suitable h) /\
    (NoDup (hp_suitable h) -> NoDup (hp_suitable h')).
Proof. exact destination_becomes_suitable. Qed.
Print Assumptions C17_destination_becomes_suitable.

(* host movement only relocates: cell invariants at every level and the host total are kept *)
Theorem C17_movement_preserves : forall lv q ne nm g step moves,
  Forall (fun r => match fst r with [_; _; _; _; count] => 0 <= count | _ => True end) moves ->
  hoare (fun w => WI lv q w /\ WS ne nm w) (act_movement g step moves)
        (fun _ w => WI lv q w /\ WS ne nm w).
Proof. exact act_movement_WI. Qed.
Print Assumptions C17_movement_preserves.

Example C17_nonvacuous : applicable 2 [([0; 0; 0; 1; 3], 2); ([0; 1; 0; 0; 1], 2); ([0; 0; 0; 1; 3], 4)] =
  [([0; 0; 0; 1; 3], 2); ([0; 1; 0; 0; 1], 2)].
Proof. vm_compute. reflexivity. Qed.
Print Assumptions C17_nonvacuous.
