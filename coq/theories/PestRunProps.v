(* The pest-pool rasters (dispersers, established dispersers) and the soil
   cohorts stay non-negative over whole runs (property C02).  PestProps.v
   proves that SpreadAction::generate, SpreadAction::disperse and
   SoilPool::next_step preserve [PP]; every other action of Model::run_step
   leaves the three fields alone (frame lemmas below), so [PP] holds after
   every individual action of every step of every run, for every tape of
   random outcomes. *)
From Coq Require Import ZArith QArith List Bool Lia.
From Pops Require Import Err Rounding RoundingProps CellDefs CellProps MoveProps LandDefs MonadProps
     LandProps ShapeProps LandProps2 ActionProps SchedDefs SchedProps ModelDefs ModelProps PestProps RunProps.
Import ListNotations.
Local Open Scope Z_scope.

(* ================================================================== *)
(* 1. frame: dispersers, established dispersers and soil are untouched  *)
(* ================================================================== *)
Definition pest_soil_same (w w' : world) : Prop :=
  w_disp w' = w_disp w /\ w_estab w' = w_estab w /\ w_soil w' = w_soil w.

Lemma pest_soil_same_refl : rrefl pest_soil_same.
Proof. intros w. unfold pest_soil_same. auto. Qed.
Lemma pest_soil_same_trans : rtrans pest_soil_same.
Proof. intros a b c (A1 & A2 & A3) (B1 & B2 & B3). unfold pest_soil_same. repeat split; congruence. Qed.

Notation fr m := (wrel pest_soil_same m).

(* ---------- combinators ---------- *)
Lemma fr_ro {A} (m : W A) : read_only m -> fr m.
Proof. apply wrel_ro. exact pest_soil_same_refl. Qed.

Lemma fr_bind {A B} (m : W A) (f : A -> W B) : fr m -> (forall a, fr (f a)) -> fr (mbind m f).
Proof. apply wrel_bind. exact pest_soil_same_trans. Qed.

Lemma fr_mfold {A} (f : A -> W unit) l : (forall a, fr (f a)) -> fr (mfold f l).
Proof. apply wrel_mfold; [exact pest_soil_same_refl|exact pest_soil_same_trans]. Qed.

Lemma fr_mrepeat (m : W unit) n : fr m -> fr (mrepeat n m).
Proof. apply wrel_mrepeat; [exact pest_soil_same_refl|exact pest_soil_same_trans]. Qed.

Lemma fr_for_suitable g (f : Z -> Z -> nat -> W unit) : (forall r c i, fr (f r c i)) -> fr (for_suitable g f).
Proof. apply wrel_for_suitable; [exact pest_soil_same_refl|exact pest_soil_same_trans]. Qed.

Lemma fr_for_hosts (f : nat -> W unit) : (forall j, fr (f j)) -> forall n k, fr (for_hosts k n f).
Proof.
  intros Hf n. induction n as [|n IH]; intros k; cbn [for_hosts]; [apply fr_ro, ro_ret|].
  apply fr_bind; [apply Hf|]. intros ?u. apply IH.
Qed.

Lemma fr_all_hosts (f : nat -> W unit) : (forall j, fr (f j)) -> fr (all_hosts f).
Proof.
  intros Hf. unfold all_hosts. apply fr_bind; [apply fr_ro, ro_num_hosts|]. intros n.
  apply fr_for_hosts. exact Hf.
Qed.

(* read the world, write back a world that differs in other fields only *)
Lemma fr_get_put (f : world -> world) : (forall w, pest_soil_same w (f w)) -> fr (let* w := get in put (f w)).
Proof. intros Hf w t a w' t' H. binv. apply Hf. Qed.

Lemma fr_get_put_then {B} (f : world -> world) (k : W B) :
  (forall w, pest_soil_same w (f w)) -> fr k -> fr (let* w := get in put (f w) ;; k).
Proof.
  intros Hf Hk w t a w' t' H. binv.
  eapply pest_soil_same_trans; [apply Hf|]. eapply Hk. eassumption.
Qed.

(* ---------- the primitives that write to the hosts ---------- *)
Lemma fr_set_host k h : fr (set_host k h).
Proof.
  intros w t u w' t' H. apply set_host_inv in H as (_ & hs & _ & ->).
  unfold pest_soil_same, with_hosts; cbn [w_disp w_estab w_soil]. auto.
Qed.

Lemma fr_set_cell k i c : fr (set_cell k i c).
Proof.
  unfold set_cell. apply fr_bind; [apply fr_ro, ro_get_host|]. intros h.
  apply fr_bind; [apply fr_ro, ro_lift|]. intros cs. apply fr_set_host.
Qed.

Lemma fr_lift {A} (r : result A) : fr (@lift world A r).
Proof. apply fr_ro, ro_lift. Qed.

Lemma fr_set_temperature r : fr (set_temperature r).
Proof. unfold set_temperature. apply fr_get_put. intros w. unfold pest_soil_same; cbn [w_disp w_estab w_soil]. auto. Qed.

Lemma fr_set_totpop r : fr (set_totpop r).
Proof. unfold set_totpop. apply fr_get_put. intros w. unfold pest_soil_same; cbn [w_disp w_estab w_soil]. auto. Qed.

(* ---------- structural automation ---------- *)
Ltac fr_leaf :=
  first [ apply fr_set_cell | apply fr_set_host
        | apply fr_ro;
          first [ apply ro_ret | apply ro_fail | apply ro_get | apply ro_lift | apply ro_pop
                | apply ro_get_cell | apply ro_get_host | apply ro_host_cfg | apply ro_num_hosts
                | apply ro_pop_draw | apply ro_temperature_at | apply ro_weather_at
                | apply ro_total_population_at | apply ro_host_field_at
                | apply ro_multi_infected_at | apply ro_multi_total_hosts_at
                | apply ro_suitable_cells ] ].

Ltac fr_step :=
  match goal with
  | |- fr (mbind _ _) => apply fr_bind; [|intros ?]
  | |- fr (all_hosts _) => apply fr_all_hosts; intros ?
  | |- fr (for_suitable _ _) => apply fr_for_suitable; intros ? ? ?
  | |- fr (mfold _ _) => apply fr_mfold; intros ?
  | |- fr (if ?b then _ else _) => destruct b
  | |- fr (match ?x with _ => _ end) => destruct x
  | |- fr _ => fr_leaf
  end.
Ltac frs := repeat fr_step.

(* ---------- HostPool removals ---------- *)
Lemma fr_host_remove_infected k i count : fr (host_remove_infected k i count).
Proof. unfold host_remove_infected. frs. Qed.

Lemma fr_host_remove_exposed k i count : fr (host_remove_exposed k i count).
Proof. unfold host_remove_exposed. frs. Qed.

Lemma fr_host_remove_by_ratio k i ratio : fr (host_remove_by_ratio k i ratio).
Proof.
  unfold host_remove_by_ratio.
  apply fr_bind; [apply fr_ro, ro_get_cell|]. intros c.
  apply fr_bind; [apply fr_host_remove_infected|]. intros ?u.
  apply fr_bind; [apply fr_ro, ro_get_cell|]. intros c1.
  apply fr_host_remove_exposed.
Qed.

(* RemoveByTemperature *)
Theorem act_lethal_frame g : fr (act_lethal g).
Proof.
  unfold act_lethal. apply fr_for_suitable. intros r c i.
  apply fr_bind; [apply fr_ro, ro_temperature_at|]. intros temp.
  destruct (qltb temp (g_lethal_temp g)); [|apply fr_ro, ro_ret].
  apply fr_all_hosts. intros k. apply fr_bind; [apply fr_ro, ro_get_cell|]. intros c0.
  apply fr_host_remove_infected.
Qed.

(* SurvivalRateAction *)
Theorem act_survival_frame g rates : fr (act_survival g rates).
Proof.
  unfold act_survival. apply fr_for_suitable. intros r c i.
  apply fr_bind; [apply fr_lift|]. intros x.
  destruct (qltb x 1); [|apply fr_ro, ro_ret].
  apply fr_all_hosts. intros k. apply fr_host_remove_by_ratio.
Qed.

(* host_pool.step_forward *)
Theorem act_step_forward_frame g step : fr (act_step_forward g step).
Proof. unfold act_step_forward. frs. Qed.

(* ---------- overpopulation ---------- *)
Lemma fr_multi_pests_from i count : fr (multi_pests_from i count).
Proof.
  unfold multi_pests_from.
  apply fr_bind; [apply fr_ro, ro_num_hosts|]. intros n.
  apply fr_bind; [apply fr_ro, ro_pop_draw|]. intros d.
  apply fr_bind; [apply fr_ro, ro_host_field_at|]. intros pops.
  apply fr_bind; [apply fr_ro; ro|]. intros ?u.
  match goal with |- fr (?F 0%nat n d 0) =>
    assert (HF : forall m k ds acc, fr (F k m ds acc)); [|apply HF] end.
  induction m as [|m IH]; intros k ds acc; [apply fr_ro, ro_ret|].
  destruct ds as [|x r]; [apply fr_ro, ro_ret|].
  apply fr_bind; [apply fr_ro, ro_get_cell|]. intros c.
  apply fr_bind; [apply fr_set_cell|]. intros ?u. apply IH.
Qed.

Lemma fr_multi_pests_to i count : fr (multi_pests_to i count).
Proof.
  unfold multi_pests_to.
  apply fr_bind; [apply fr_ro, ro_num_hosts|]. intros n.
  apply fr_bind; [apply fr_ro, ro_pop_draw|]. intros d.
  apply fr_bind; [apply fr_ro, ro_host_field_at|]. intros pops.
  apply fr_bind; [apply fr_ro; ro|]. intros ?u.
  match goal with |- fr (?F 0%nat n d 0) =>
    assert (HF : forall m k ds acc, fr (F k m ds acc)); [|apply HF] end.
  induction m as [|m IH]; intros k ds acc; [apply fr_ro, ro_ret|].
  destruct ds as [|x r]; [apply fr_ro, ro_ret|].
  apply fr_bind; [apply fr_ro, ro_get_cell|]. intros c.
  apply fr_bind; [apply fr_set_cell|]. intros ?u. apply IH.
Qed.

Lemma fr_overpop_departures g : fr (overpop_departures g).
Proof.
  unfold overpop_departures.
  apply fr_bind; [apply fr_ro, ro_suitable_cells|]. intros cells.
  match goal with |- fr (?F cells []) =>
    assert (HF : forall l moves, fr (F l moves)); [|apply HF] end.
  induction l as [|[ri ci] r IH]; intros moves; [apply fr_ro, ro_ret|].
  apply fr_bind; [apply fr_lift|]. intros i.
  apply fr_bind; [apply fr_ro, ro_multi_infected_at|]. intros orig.
  destruct (orig <=? 1); [apply IH|].
  apply fr_bind; [apply fr_ro, ro_multi_total_hosts_at|]. intros th.
  destruct (th =? 0); [apply fr_ro, ro_fail|].
  destruct (Qle_bool _ _); [|apply IH].
  apply fr_bind; [apply fr_ro, ro_pop|]. intros e.
  destruct e; try (apply fr_ro, ro_fail).
  destruct (negb _); [apply fr_ro, ro_fail|].
  apply fr_bind; [apply fr_multi_pests_from|]. intros leaving.
  destruct (is_outside g row col).
  - apply (fr_get_put_then (fun w => upd_outside w (w_outside w ++ repeat_pair (Z.to_nat leaving) (row, col))));
      [|apply IH].
    intros w. unfold pest_soil_same; cbn [upd_outside w_disp w_estab w_soil]. auto.
  - apply fr_bind; [apply fr_lift|]. intros tgt. apply IH.
Qed.

(* MoveOverpopulatedPests *)
Theorem act_overpopulation_frame g : fr (act_overpopulation g).
Proof.
  unfold act_overpopulation.
  apply fr_bind; [apply fr_overpop_departures|]. intros moves.
  apply fr_mfold. intros mv.
  apply fr_bind; [apply fr_multi_pests_to|]. intros ?u. apply fr_ro, ro_ret.
Qed.

(* ---------- host movement ---------- *)
Lemma fr_move_hosts g rf cf rt ct count : fr (move_hosts g rf cf rt ct count).
Proof.
  unfold move_hosts.
  apply fr_bind; [apply fr_lift|]. intros ifrom.
  apply fr_bind; [apply fr_lift|]. intros ito.
  apply fr_bind; [apply fr_ro, ro_get_cell|]. intros c.
  apply fr_bind; [apply fr_ro, ro_pop|]. intros e.
  destruct e; try (apply fr_ro, ro_fail).
  destruct (negb _); [apply fr_ro, ro_fail|]. destruct (negb _); [apply fr_ro, ro_fail|].
  apply fr_bind; [apply fr_ro; ro; apply ro_pop_draw|]. intros ed.
  apply fr_bind; [apply fr_ro; ro|]. intros ?u.
  apply fr_bind; [apply fr_ro; ro; apply ro_pop_draw|]. intros md.
  apply fr_bind; [apply fr_ro; ro|]. intros ?u.
  apply fr_bind; [apply fr_ro, ro_get_cell|]. intros cto0.
  apply fr_bind.
  { destruct (cTH cto0 =? 0); [|apply fr_ro, ro_ret].
    apply fr_bind; [apply fr_ro, ro_get_host|]. intros h.
    destruct (existsb _ _); [apply fr_ro, ro_ret|]. apply fr_set_host. }
  intros ?u.
  apply fr_bind; [apply fr_ro, ro_get_cell|]. intros c1.
  apply fr_bind; [apply fr_set_cell|]. intros ?u.
  apply fr_bind; [apply fr_ro, ro_get_cell|]. intros c2.
  apply fr_bind; [apply fr_set_cell|]. intros ?u.
  apply fr_ro, ro_ret.
Qed.

Lemma fr_movement_loop g step : forall rows i, fr (movement_loop g step rows i).
Proof.
  induction rows as [|[mv sched] r IH]; intros i; cbn [movement_loop]; [apply fr_ro, ro_ret|].
  destruct (negb _); [apply fr_ro, ro_ret|].
  destruct mv as [|rf [|cf [|rt [|ct [|count [|x mv]]]]]]; try (apply fr_ro, ro_fail).
  apply fr_bind; [apply fr_move_hosts|]. intros ?u. apply IH.
Qed.

(* HostMovement *)
Theorem act_movement_frame g step moves : fr (act_movement g step moves).
Proof.
  unfold act_movement.
  apply fr_bind; [apply fr_ro, ro_get|]. intros w0.
  apply fr_bind; [apply fr_movement_loop|]. intros k.
  apply (fr_get_put (fun w' => upd_last_index w' k)).
  intros w. unfold pest_soil_same; cbn [upd_last_index w_disp w_estab w_soil]. auto.
Qed.

(* ---------- treatments ---------- *)
Lemma fr_apply_treatment g k t : fr (apply_treatment g k t).
Proof. unfold apply_treatment. frs. Qed.

Lemma fr_end_treatment g k t : fr (end_treatment g k t).
Proof. unfold end_treatment. frs. Qed.

Theorem act_treatments_frame g ts step : fr (act_treatments g ts step).
Proof.
  unfold act_treatments. apply fr_all_hosts. intros k. unfold manage.
  apply fr_mfold. intros t.
  destruct (t_start t =? step); [apply fr_apply_treatment|].
  destruct (_ && _); [apply fr_end_treatment|apply fr_ro, ro_ret].
Qed.

(* ---------- mortality ---------- *)
Theorem act_mortality_frame g : fr (act_mortality g).
Proof. unfold act_mortality. frs. Qed.

(* the statements of the frame lemmas, spelled out *)
Lemma fr_unfold {A} (m : W A) : fr m ->
  forall w t a w' t', m w t = Ok (a, w', t') ->
  w_disp w' = w_disp w /\ w_estab w' = w_estab w /\ w_soil w' = w_soil w.
Proof. intros H. exact H. Qed.

(* ================================================================== *)
(* 2. one action of the plan                                            *)
(* ================================================================== *)
Lemma hoare_PP_fr {A} (m : W A) : fr m -> hoare PP m (fun _ w => PP w).
Proof.
  intros Hm w t a w' t' HP E. apply Hm in E. destruct E as (E1 & E2 & E3).
  exact (PP_ext _ _ E1 E2 E3 HP).
Qed.

(* the actions other than soil ageing, generate and disperse are frames *)
Definition pest_tag (tag : action_tag) : bool :=
  match tag with ASoil | AGenerate | ADisperse => true | _ => false end.

Theorem run_action_frame m inp step a : pest_tag (fst a) = false -> fr (run_action m inp step a).
Proof.
  intros Htag. unfold run_action. destruct a as [tag k]; cbn [fst snd] in *.
  destruct tag; try discriminate Htag.
  - apply fr_bind; [apply fr_lift|]. intros temp.
    apply fr_bind; [apply fr_set_temperature|]. intros ?u. apply act_lethal_frame.
  - apply fr_bind; [apply fr_lift|]. intros r. apply act_survival_frame.
  - apply act_step_forward_frame.
  - apply act_overpopulation_frame.
  - apply act_movement_frame.
  - apply act_treatments_frame.
  - apply act_mortality_frame.
  - destruct (k >=? m_rate_capacity m); [apply fr_ro, ro_fail|apply fr_ro, ro_ret].
  - apply fr_ro, ro_ret.
Qed.

Theorem run_action_PP m inp step a : (0 <= g_soil_pct (m_g m) <= 1)%Q ->
  hoare PP (run_action m inp step a) (fun _ w => PP w).
Proof.
  intros Hp. destruct (pest_tag (fst a)) eqn:Htag; [|apply hoare_PP_fr, run_action_frame; exact Htag].
  unfold run_action. destruct a as [tag k]; cbn [fst snd] in *.
  destruct tag; try discriminate Htag.
  - intros w t a w' t' HP H. binv. apply act_soil_next_PP. exact HP.
  - eapply hoare_bind; [apply hoare_PP_fr, fr_set_totpop|]. intros ?u.
    apply pest_pool_nonneg_generate. exact Hp.
  - apply pest_pool_nonneg_disperse.
Qed.

(* ================================================================== *)
(* 3. plans, steps, runs                                                *)
(* ================================================================== *)
Lemma run_plan_PP m inp step : (0 <= g_soil_pct (m_g m) <= 1)%Q ->
  forall p w t acc, PP w -> Forall (fun x => PP (snd x)) acc ->
    Forall (fun x => PP (snd x)) (snd (run_plan m inp step p w t acc)) /\
    (forall tr w' t', fst (run_plan m inp step p w t acc) = Ok (tr, w', t') -> PP w').
Proof.
  intros Hp p. induction p as [|a r IH]; intros w t acc HP Hacc; cbn [run_plan].
  - cbn [fst snd]. split; [assumption|]. intros tr w' t' [= _ <- _]. assumption.
  - destruct (run_action m inp step a w t) as [[[u w1] t1]|e] eqn:E; cbn [fst snd].
    + assert (HP1 : PP w1) by exact (run_action_PP m inp step a Hp w t u w1 t1 HP E).
      apply IH; [assumption|].
      apply Forall_app; split; [assumption|constructor; [exact HP1|constructor]].
    + split; [assumption|]. intros tr w' t' H. discriminate.
Qed.

Theorem run_step_PP m inp step w t : (0 <= g_soil_pct (m_g m) <= 1)%Q -> PP w ->
  Forall (fun x => PP (snd x)) (snd (run_step m inp step w t)) /\
  (forall tr w' t', fst (run_step m inp step w t) = Ok (tr, w', t') -> PP w').
Proof.
  intros Hp HP. unfold run_step. destruct (plan m (has_soil w) step) as [p|e]; cbn [fst snd].
  - apply run_plan_PP; [exact Hp|exact HP|constructor].
  - split; [constructor|]. intros tr w' t' H. discriminate.
Qed.

Lemma with_weather_PP w wc : PP w -> PP (with_weather w wc).
Proof. apply PP_ext; reflexivity. Qed.

Theorem run_many_PP m inp weather : (0 <= g_soil_pct (m_g m) <= 1)%Q ->
  forall tapes step w w', PP w -> run_many m inp weather tapes step w = Ok w' -> PP w'.
Proof.
  intros Hp tapes. induction tapes as [|t r IH]; intros step w w' HP H; cbn [run_many] in H.
  - injection H as <-. assumption.
  - destruct (fst (run_step m (inp step) step (with_weather w (weather step)) t))
      as [[[tr w1] t1]|e] eqn:E; [|discriminate].
    destruct (run_step_PP m (inp step) step _ t Hp (with_weather_PP w (weather step) HP)) as (_ & Hres).
    eapply IH; [|exact H]. eapply Hres. exact E.
Qed.

(* ---- the raster entry point: same dispersers-to-soil percentage ---- *)
Lemma raster_entry_soil_pct m : g_soil_pct (m_g (raster_entry_cfg m)) = g_soil_pct (m_g m).
Proof. reflexivity. Qed.

Theorem run_step_rasters_PP m inp step w t : (0 <= g_soil_pct (m_g m) <= 1)%Q -> PP w ->
  Forall (fun x => PP (snd x)) (snd (run_step_rasters m inp step w t)) /\
  (forall tr w' t', fst (run_step_rasters m inp step w t) = Ok (tr, w', t') -> PP w').
Proof. intros Hp HP. unfold run_step_rasters. apply run_step_PP; [exact Hp|exact HP]. Qed.

Theorem run_many_rasters_PP m inp weather : (0 <= g_soil_pct (m_g m) <= 1)%Q ->
  forall tapes step w w', PP w -> run_many (raster_entry_cfg m) inp weather tapes step w = Ok w' -> PP w'.
Proof. intros Hp. apply run_many_PP. exact Hp. Qed.

(* ---- J (host pools) and PP (pest pool, soil) together ---- *)
Theorem run_step_J_PP lv q ne nm m inp step w t :
  cfg_ok (m_g m) -> (0 <= g_soil_pct (m_g m) <= 1)%Q -> inputs_ok inp -> level_ok lv m inp ->
  J lv q ne nm w -> PP w ->
  Forall (fun x => J lv q ne nm (snd x) /\ PP (snd x)) (snd (run_step m inp step w t)) /\
  (forall tr w' t', fst (run_step m inp step w t) = Ok (tr, w', t') -> J lv q ne nm w' /\ PP w').
Proof.
  intros Hg Hp Hi Hlv HJ HP.
  destruct (run_step_J lv q ne nm m inp step w t Hg Hi Hlv HJ) as (A1 & A2).
  destruct (run_step_PP m inp step w t Hp HP) as (B1 & B2).
  split.
  - rewrite Forall_forall in *. intros x Hx. split; [apply A1|apply B1]; exact Hx.
  - intros tr w' t' E. split; [eapply A2|eapply B2]; exact E.
Qed.

(* ---- non-vacuity ---- *)
Example demo_world_PP : PP demo_world.
Proof. unfold PP, soil_nonneg, rnonneg, demo_world; cbn [w_disp w_estab w_soil]. repeat constructor; lia. Qed.

(* a world with a soil pool, two cohorts per cell *)
Definition demo_soil_world : world :=
  mkworld (w_hosts demo_world) [3; 0] [1; 0] [] (Some [[0; 2]; [1; 0]]) None None None None 0.

Example demo_soil_world_PP : PP demo_soil_world.
Proof. unfold PP, soil_nonneg, rnonneg, demo_soil_world; cbn [w_disp w_estab w_soil]. repeat constructor; lia. Qed.

Print Assumptions run_action_frame.
Print Assumptions run_action_PP.
Print Assumptions run_step_PP.
Print Assumptions run_many_PP.
Print Assumptions run_step_rasters_PP.
Print Assumptions run_many_rasters_PP.
Print Assumptions run_step_J_PP.
