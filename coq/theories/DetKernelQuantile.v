(* The quantile functions (`icdf`) the deterministic kernel uses for the six
   kernel types with a closed form are the inverses of the cumulative
   distribution functions of the densities (`pdf`) the same classes use for the
   window weights.  The formulas are the ones translated from the headers on
   this run (GeneratedKernels.KernelFormulas), so the theorems are about what
   the code says now.  For each kernel: the cdf is written down here, its
   derivative is the translated pdf (Coquelicot `is_derive`), and
   cdf (icdf u) = u for every 0 < u < 1.

   std::pow with a non-literal exponent is Rpower (exp (e * ln b)): it agrees
   with the C function for positive bases, which is why the Weibull and
   power-law statements are for arguments that make the base positive. *)
From Coq Require Import Reals Lra.
Set Warnings "-ambiguous-paths".
From Coquelicot Require Import Coquelicot.
From Pops Require Import GeneratedKernels.
Import KernelFormulas.
Local Open Scope R_scope.

Lemma Rpower_pred u a : 0 < u -> Rpower u (a - 1) = Rpower u a / u.
Proof. intros Hu. unfold Rminus. rewrite Rpower_plus, Rpower_Ropp, Rpower_1 by exact Hu. reflexivity. Qed.

Lemma ln_neg u : 0 < u < 1 -> ln (1 - u) < 0.
Proof. intros H. rewrite <- ln_1. apply ln_increasing; lra. Qed.

(* ---------------- Cauchy ---------------- *)
Definition cauchy_cdf (s x : R) : R := 1 / 2 + atan (x / s) / PI.

Lemma cauchy_cdf_derive s x : 0 < s -> is_derive (cauchy_cdf s) x (cauchy_pdf s x).
Proof. intros Hs. unfold cauchy_cdf, cauchy_pdf. auto_derive. exact I.
  assert (0 < 1 + x * / s * (x * / s * 1)) by nra. pose proof PI_RGT_0.
  unfold Rdiv. field. repeat split; try lra. nra. Qed.

Lemma cauchy_cdf_icdf s u : 0 < s -> 0 < u < 1 -> cauchy_cdf s (cauchy_icdf s u) = u.
Proof. intros Hs Hu. unfold cauchy_cdf, cauchy_icdf. pose proof PI_RGT_0.
  replace (s * tan (PI * (u - 1 / 2)) / s) with (tan (PI * (u - 1 / 2))) by (field; lra).
  rewrite atan_tan. field. lra. split; nra. Qed.

Lemma cauchy_cdf_centre s : 0 < s -> cauchy_cdf s 0 = 1 / 2.
Proof. intros Hs. unfold cauchy_cdf. replace (0 / s) with 0 by (field; lra). rewrite atan_0. field. pose proof PI_RGT_0. lra. Qed.

(* ---------------- exponential ---------------- *)
Definition exponential_cdf (beta x : R) : R := 1 - exp (- x / beta).

Lemma exponential_cdf_derive beta x : 0 < beta -> is_derive (exponential_cdf beta) x (exponential_pdf beta x).
Proof. intros Hb. unfold exponential_cdf, exponential_pdf. auto_derive. exact I. unfold Rdiv. field. lra. Qed.

Lemma exponential_cdf_icdf beta u : 0 < beta -> 0 < u < 1 -> exponential_cdf beta (exponential_icdf beta u) = u.
Proof. intros Hb Hu. unfold exponential_cdf, exponential_icdf.
  replace (- (- beta * ln (1 - u)) / beta) with (ln (1 - u)) by (field; lra).
  rewrite exp_ln by lra. ring. Qed.

Lemma exponential_cdf_origin beta : exponential_cdf beta 0 = 0.
Proof. unfold exponential_cdf. replace (- 0 / beta) with 0 by (unfold Rdiv; ring). rewrite exp_0. ring. Qed.

(* ---------------- Weibull (a = shape, b = scale, as in the class) ---------------- *)
Definition weibull_cdf (a b x : R) : R := 1 - exp (- Rpower (x / b) a).

Lemma weibull_cdf_derive a b x : 0 < a -> 0 < b -> 0 < x -> is_derive (weibull_cdf a b) x (weibull_pdf a b x).
Proof. intros Ha Hb Hx. unfold weibull_cdf, weibull_pdf.
  assert (Hu: 0 < x / b) by (apply Rdiv_lt_0_compat; lra).
  rewrite (Rpower_pred (x / b) a Hu). unfold Rpower. auto_derive.
  - replace (x * / b) with (x / b) by reflexivity. lra.
  - replace (x * / b) with (x / b) by reflexivity. unfold Rdiv. field. split; lra. Qed.

Lemma weibull_cdf_icdf a b u : 0 < a -> 0 < b -> 0 < u < 1 -> weibull_cdf a b (weibull_icdf a b u) = u.
Proof. intros Ha Hb Hu. unfold weibull_cdf, weibull_icdf.
  pose proof (ln_neg u Hu) as Hl.
  replace (b * Rpower (- ln (1 - u)) (1 / a) / b) with (Rpower (- ln (1 - u)) (1 / a)) by (field; lra).
  rewrite Rpower_mult. replace (1 / a * a) with 1 by (field; lra). rewrite Rpower_1 by lra.
  rewrite Ropp_involutive. rewrite exp_ln by lra. ring. Qed.

(* ---------------- logistic ---------------- *)
Definition logistic_cdf (s x : R) : R := 1 / (1 + exp (- x / s)).

Lemma logistic_cdf_derive_general s x : 0 < s ->
  is_derive (logistic_cdf s) x (exp (- x / s) / (s * (1 + exp (- x / s)) ^ 2)).
Proof. intros Hs. unfold logistic_cdf. auto_derive.
  - assert (0 < exp (- x * / s)) by apply exp_pos. lra.
  - unfold Rdiv. assert (0 < exp (- x * / s)) by apply exp_pos. field. split; lra. Qed.

Lemma logistic_cdf_derive s x : 0 < s -> is_derive (logistic_cdf s) x (logistic_pdf s x).
Proof. intros Hs. unfold logistic_pdf. destruct (Req_EM_T s 1) as [E|_].
  - subst s. replace (exp (- x) / (1 + exp (- x)) ^ 2) with (exp (- x / 1) / (1 * (1 + exp (- x / 1)) ^ 2)).
    apply logistic_cdf_derive_general. lra.
    replace (- x / 1) with (- x) by field. assert (0 < exp (- x)) by apply exp_pos. field. lra.
  - apply logistic_cdf_derive_general. exact Hs. Qed.

Lemma logistic_cdf_icdf s u : 0 < s -> 0 < u < 1 -> logistic_cdf s (logistic_icdf s u) = u.
Proof. intros Hs Hu. unfold logistic_cdf, logistic_icdf.
  replace (- (s * ln (u / (1 - u))) / s) with (- ln (u / (1 - u))) by (field; lra).
  rewrite exp_Ropp, exp_ln. field. lra. apply Rdiv_lt_0_compat; lra. Qed.

Lemma logistic_cdf_centre s : 0 < s -> logistic_cdf s 0 = 1 / 2.
Proof. intros Hs. unfold logistic_cdf. replace (- 0 / s) with 0 by (field; lra). rewrite exp_0. field. Qed.

(* ---------------- hyperbolic secant ---------------- *)
Definition hyperbolic_secant_cdf (sigma x : R) : R := 2 / PI * atan (exp (PI * x / (2 * sigma))).

Lemma hyperbolic_secant_cdf_derive_general sigma x : 0 < sigma ->
  is_derive (hyperbolic_secant_cdf sigma) x (1 / (2 * sigma) * (1 / cosh (PI * x / (2 * sigma)))).
Proof. intros Hs. unfold hyperbolic_secant_cdf. auto_derive. exact I.
  unfold cosh. replace (PI * x * / (2 * sigma)) with (PI * x / (2 * sigma)) by reflexivity.
  rewrite exp_Ropp. set (E := exp (PI * x / (2 * sigma))). assert (0 < E) by apply exp_pos.
  pose proof PI_RGT_0. unfold Rdiv. field. repeat split; try lra; nra. Qed.

Lemma hyperbolic_secant_cdf_derive sigma x : 0 < sigma ->
  is_derive (hyperbolic_secant_cdf sigma) x (hyperbolic_secant_pdf sigma x).
Proof. intros Hs. unfold hyperbolic_secant_pdf. destruct (Req_EM_T sigma 1) as [E|_].
  - subst sigma. replace (1 / 2 * (1 / cosh (PI * x / 2))) with (1 / (2 * 1) * (1 / cosh (PI * x / (2 * 1)))).
    apply hyperbolic_secant_cdf_derive_general. lra. rewrite Rmult_1_r. reflexivity.
  - apply hyperbolic_secant_cdf_derive_general. exact Hs. Qed.

Lemma hyperbolic_secant_cdf_icdf sigma u : 0 < sigma -> 0 < u < 1 ->
  hyperbolic_secant_cdf sigma (hyperbolic_secant_icdf sigma u) = u.
Proof. intros Hs Hu. pose proof PI_RGT_0 as Hpi.
  assert (Ht: 0 < tan (u * PI / 2)). { apply tan_gt_0; nra. }
  assert (Hgen: hyperbolic_secant_cdf sigma (ln (tan (u * PI / 2)) * (2 * sigma) / PI) = u).
  { unfold hyperbolic_secant_cdf.
    replace (PI * (ln (tan (u * PI / 2)) * (2 * sigma) / PI) / (2 * sigma)) with (ln (tan (u * PI / 2))) by (field; lra).
    rewrite exp_ln by exact Ht. rewrite atan_tan. field. lra. split; nra. }
  unfold hyperbolic_secant_icdf. destruct (Req_EM_T sigma 1) as [E|_].
  - subst sigma. rewrite <- Hgen at 2. f_equal. replace (PI / 2 * u) with (u * PI / 2) by field. field. lra.
  - exact Hgen. Qed.

Lemma hyperbolic_secant_cdf_centre sigma : 0 < sigma -> hyperbolic_secant_cdf sigma 0 = 1 / 2.
Proof. intros Hs. unfold hyperbolic_secant_cdf. replace (PI * 0 / (2 * sigma)) with 0 by (field; lra).
  rewrite exp_0, atan_1. field. pose proof PI_RGT_0. lra. Qed.

(* ---------------- power law ---------------- *)
(* density ((alpha-1)/xmin) ((x+xmin)/xmin)^(-alpha) on x >= 0 (the class shifts x by xmin) *)
Definition power_law_cdf (alpha xmin x : R) : R := 1 - Rpower ((x + xmin) / xmin) (1 - alpha).

Lemma power_law_cdf_derive alpha xmin x : 0 < xmin -> 0 <= x ->
  is_derive (power_law_cdf alpha xmin) x (power_law_pdf alpha xmin x).
Proof. intros Hm Hx. unfold power_law_cdf, power_law_pdf. cbv zeta.
  assert (Hu: 0 < (x + xmin) / xmin) by (apply Rdiv_lt_0_compat; lra).
  replace (- alpha) with ((1 - alpha) - 1) by ring. rewrite (Rpower_pred _ (1 - alpha) Hu).
  unfold Rpower. auto_derive.
  - replace ((x + xmin) * / xmin) with ((x + xmin) / xmin) by reflexivity. lra.
  - replace ((x + xmin) * / xmin) with ((x + xmin) / xmin) by reflexivity. unfold Rdiv. field. split; lra. Qed.

Lemma power_law_cdf_origin alpha xmin : 0 < xmin -> power_law_cdf alpha xmin 0 = 0.
Proof. intros Hm. unfold power_law_cdf. replace ((0 + xmin) / xmin) with 1 by (field; lra).
  unfold Rpower. rewrite ln_1, Rmult_0_r, exp_0. ring. Qed.

(* the quantile function of this density *)
Definition power_law_quantile (alpha xmin u : R) : R := xmin * (Rpower (1 - u) (- (1 / (alpha - 1))) - 1).

Lemma power_law_cdf_quantile alpha xmin u : 1 < alpha -> 0 < xmin -> 0 < u < 1 ->
  power_law_cdf alpha xmin (power_law_quantile alpha xmin u) = u.
Proof. intros Ha Hm Hu. unfold power_law_cdf, power_law_quantile.
  replace ((xmin * (Rpower (1 - u) (- (1 / (alpha - 1))) - 1) + xmin) / xmin) with (Rpower (1 - u) (- (1 / (alpha - 1)))) by (field; lra).
  rewrite Rpower_mult. replace (- (1 / (alpha - 1)) * (1 - alpha)) with 1 by (field; lra).
  rewrite Rpower_1 by lra. ring. Qed.

(* ... and the `icdf` of the class is not it *)
Lemma power_law_icdf_refuted :
  exists alpha xmin u, 1 < alpha /\ 0 < xmin /\ 0 < u < 1 /\
    power_law_cdf alpha xmin (power_law_icdf alpha xmin u) <> u.
Proof. exists 2, 1, (1 / 2). split. lra. split. lra. split. lra.
  unfold power_law_cdf, power_law_icdf.
  replace (1 / 2 / 1) with (/ 2) by field. replace (- (2) + 1) with (- (1)) by ring.
  rewrite Rpower_Ropp, Rpower_1 by lra. rewrite Rinv_inv.
  replace ((2 + 1) / 1) with 3 by field. replace (1 - 2) with (- (1)) by ring.
  rewrite Rpower_Ropp, Rpower_1 by lra. lra. Qed.

(* ---------------- per kernel: cdf' = pdf, cdf (icdf u) = u, anchoring value ---------------- *)
Definition quantile_is_inverse_cdf (cdf pdf icdf : R -> R) (support : R -> Prop) : Prop :=
  (forall x, support x -> is_derive cdf x (pdf x)) /\ (forall u, 0 < u < 1 -> cdf (icdf u) = u).

Lemma cauchy_quantile s : 0 < s ->
  quantile_is_inverse_cdf (cauchy_cdf s) (cauchy_pdf s) (cauchy_icdf s) (fun _ => True) /\ cauchy_cdf s 0 = 1 / 2.
Proof. intros Hs. split; [split|]. intros x _. apply cauchy_cdf_derive; exact Hs.
  intros u Hu. apply cauchy_cdf_icdf; assumption. apply cauchy_cdf_centre; exact Hs. Qed.

Lemma exponential_quantile beta : 0 < beta ->
  quantile_is_inverse_cdf (exponential_cdf beta) (exponential_pdf beta) (exponential_icdf beta) (fun _ => True)
  /\ exponential_cdf beta 0 = 0.
Proof. intros Hb. split; [split|]. intros x _. apply exponential_cdf_derive; exact Hb.
  intros u Hu. apply exponential_cdf_icdf; assumption. apply exponential_cdf_origin. Qed.

Lemma weibull_quantile a b : 0 < a -> 0 < b ->
  quantile_is_inverse_cdf (weibull_cdf a b) (weibull_pdf a b) (weibull_icdf a b) (fun x => 0 < x)
  /\ (forall u, 0 < u < 1 -> 0 < weibull_icdf a b u).
Proof. intros Ha Hb. split; [split|]. intros x Hx. apply weibull_cdf_derive; assumption.
  intros u Hu. apply weibull_cdf_icdf; assumption.
  intros u Hu. unfold weibull_icdf. apply Rmult_lt_0_compat. exact Hb. unfold Rpower. apply exp_pos. Qed.

Lemma logistic_quantile s : 0 < s ->
  quantile_is_inverse_cdf (logistic_cdf s) (logistic_pdf s) (logistic_icdf s) (fun _ => True) /\ logistic_cdf s 0 = 1 / 2.
Proof. intros Hs. split; [split|]. intros x _. apply logistic_cdf_derive; exact Hs.
  intros u Hu. apply logistic_cdf_icdf; assumption. apply logistic_cdf_centre; exact Hs. Qed.

Lemma hyperbolic_secant_quantile sigma : 0 < sigma ->
  quantile_is_inverse_cdf (hyperbolic_secant_cdf sigma) (hyperbolic_secant_pdf sigma) (hyperbolic_secant_icdf sigma) (fun _ => True)
  /\ hyperbolic_secant_cdf sigma 0 = 1 / 2.
Proof. intros Hs. split; [split|]. intros x _. apply hyperbolic_secant_cdf_derive; exact Hs.
  intros u Hu. apply hyperbolic_secant_cdf_icdf; assumption. apply hyperbolic_secant_cdf_centre; exact Hs. Qed.

Lemma power_law_density_and_quantile alpha xmin : 1 < alpha -> 0 < xmin ->
  quantile_is_inverse_cdf (power_law_cdf alpha xmin) (power_law_pdf alpha xmin) (power_law_quantile alpha xmin) (fun x => 0 <= x)
  /\ power_law_cdf alpha xmin 0 = 0.
Proof. intros Ha Hm. split; [split|]. intros x Hx. apply power_law_cdf_derive; assumption.
  intros u Hu. apply power_law_cdf_quantile; assumption. apply power_law_cdf_origin; exact Hm. Qed.

Lemma closed_form_quantiles :
  (forall s, 0 < s -> quantile_is_inverse_cdf (cauchy_cdf s) (cauchy_pdf s) (cauchy_icdf s) (fun _ => True)) /\
  (forall beta, 0 < beta -> quantile_is_inverse_cdf (exponential_cdf beta) (exponential_pdf beta) (exponential_icdf beta) (fun _ => True)) /\
  (forall a b, 0 < a -> 0 < b -> quantile_is_inverse_cdf (weibull_cdf a b) (weibull_pdf a b) (weibull_icdf a b) (fun x => 0 < x)) /\
  (forall s, 0 < s -> quantile_is_inverse_cdf (logistic_cdf s) (logistic_pdf s) (logistic_icdf s) (fun _ => True)) /\
  (forall sigma, 0 < sigma -> quantile_is_inverse_cdf (hyperbolic_secant_cdf sigma) (hyperbolic_secant_pdf sigma) (hyperbolic_secant_icdf sigma) (fun _ => True)).
Proof. split. intros s Hs. apply (cauchy_quantile s Hs).
  split. intros b Hb. apply (exponential_quantile b Hb).
  split. intros a b Ha Hb. apply (weibull_quantile a b Ha Hb).
  split. intros s Hs. apply (logistic_quantile s Hs).
  intros s Hs. apply (hyperbolic_secant_quantile s Hs). Qed.
