(* Lemmas about the model of the deterministic kernel (DetKernelDefs.v):
   1. the relational theory of greedy allotment (any pick sequence in which each
      pick is a maximum of the current remainders): share bound in both
      directions, mirror bound;
   2. the executable `qcall`/`qrun` produces such a sequence (and picks the FIRST
      maximum), a call with a new source cell forgets the previous state;
   3. window: size, centre, distance, symmetry, normalisation;
   4. the statements of deterministic_kernel.hpp translated by
      translate/kernels.py (GeneratedKernels.DetWindow) are the model's. *)
From Coq Require Import ZArith QArith Qround Qabs Lqa Lia List Arith Bool Permutation.
From Pops Require Import DetKernelDefs GeneratedKernels.
Import ListNotations.
Local Open Scope Q_scope.

(* ------------------------------------------------------------------ *)
(* 1. relational greedy allotment                                      *)
(* ------------------------------------------------------------------ *)
Fixpoint sumQ (f : nat -> Q) (k : nat) : Q :=
  match k with O => 0 | S k' => sumQ f k' + f k' end.

Lemma sumQ_ext f g k : (forall j, (j < k)%nat -> f j == g j) -> sumQ f k == sumQ g k.
Proof. induction k; simpl; intros H. reflexivity. rewrite IHk, (H k) by auto with arith. reflexivity. Qed.

Lemma sumQ_upd f g i k : (i < k)%nat -> (forall j, j <> i -> f j == g j) -> sumQ f k == sumQ g k + (f i - g i).
Proof. induction k; intros Hi H. lia. simpl. destruct (Nat.eq_dec i k) as [->|Hne].
  - rewrite (sumQ_ext f g k). ring. intros j Hj. apply H. lia.
  - rewrite IHk by (lia || auto). rewrite (H k) by auto. ring. Qed.

Lemma sumQ_le_max f k b : (forall j, (j < k)%nat -> f j <= b) -> sumQ f k <= inject_Z (Z.of_nat k) * b.
Proof. induction k; intros H; simpl sumQ. change (inject_Z (Z.of_nat 0)) with 0. lra.
  rewrite Nat2Z.inj_succ. unfold Z.succ. rewrite inject_Z_plus.
  specialize (IHk (fun j Hj => H j (Nat.lt_lt_succ_r _ _ Hj))). specialize (H k (Nat.lt_succ_diag_r k)).
  setoid_replace ((inject_Z (Z.of_nat k) + inject_Z 1) * b) with (inject_Z (Z.of_nat k) * b + b) by ring. lra. Qed.

Lemma sumQ_nonneg f k : (forall j, (j < k)%nat -> 0 <= f j) -> 0 <= sumQ f k.
Proof. induction k; simpl; intros H. lra.
  assert (0 <= sumQ f k) by (apply IHk; intros; apply H; lia). assert (0 <= f k) by (apply H; lia). lra. Qed.

Lemma sumQ_nonneg_pos f k c : (c < k)%nat -> (forall j, (j < k)%nat -> 0 <= f j) -> 0 < f c -> 0 < sumQ f k.
Proof. induction k; intros Hc Hn Hp. lia. simpl. destruct (Nat.eq_dec c k) as [->|Hne].
  - assert (0 <= sumQ f k) by (apply sumQ_nonneg; intros; apply Hn; lia). lra.
  - assert (0 < sumQ f k) by (apply IHk; auto; lia). pose proof (Hn k (Nat.lt_succ_diag_r k)). lra. Qed.

Lemma sumQ_nonpos f k : (forall j, (j < k)%nat -> f j <= 0) -> sumQ f k <= 0.
Proof. induction k; simpl; intros H. lra.
  assert (sumQ f k <= 0) by (apply IHk; intros; apply H; lia). assert (f k <= 0) by (apply H; lia). lra. Qed.

Section Greedy.
Variable m : nat.              (* number of window cells *)
Variable p : nat -> Q.         (* weights *)
Variable n : positive.         (* dispersers of the source cell *)
Definition q : Q := 1 # n.
Lemma q_pos : 0 < q. Proof. unfold q. reflexivity. Qed.

Hypothesis p_nonneg : forall j, (j < m)%nat -> 0 <= p j.
Hypothesis p_sum : sumQ p m == 1.

Definition cnt (s : list nat) (j : nat) : nat := count_occ Nat.eq_dec s j.
(* remainder of cell j after the picks s *)
Definition r (s : list nat) (j : nat) : Q := p j - inject_Z (Z.of_nat (cnt s j)) * q.

(* s is kept in reverse order: head = latest pick *)
Inductive greedy : list nat -> Prop :=
| g_nil : greedy []
| g_cons i s : greedy s -> (i < m)%nat -> (forall j, (j < m)%nat -> r s j <= r s i) -> greedy (i :: s).

Lemma cnt_cons_eq i s : cnt (i :: s) i = S (cnt s i).
Proof. unfold cnt. simpl. destruct (Nat.eq_dec i i); congruence. Qed.
Lemma cnt_cons_neq i s j : i <> j -> cnt (i :: s) j = cnt s j.
Proof. unfold cnt. simpl. destruct (Nat.eq_dec i j); congruence. Qed.
Lemma r_cons_eq i s : r (i :: s) i == r s i - q.
Proof. unfold r. rewrite cnt_cons_eq. rewrite Nat2Z.inj_succ. unfold Z.succ. rewrite inject_Z_plus. ring. Qed.
Lemma r_cons_neq i s j : i <> j -> r (i :: s) j == r s j.
Proof. intros H. unfold r. rewrite cnt_cons_neq by exact H. reflexivity. Qed.
Lemma r_cons_le i s j : r (i :: s) j <= r s j.
Proof. destruct (Nat.eq_dec i j) as [->|H]. rewrite r_cons_eq. pose proof q_pos. lra. rewrite r_cons_neq by exact H. lra. Qed.
Lemma r_nil j : r [] j == p j.
Proof. unfold r, cnt. simpl. unfold inject_Z. ring. Qed.

Lemma greedy_range s : greedy s -> Forall (fun i => (i < m)%nat) s.
Proof. induction 1; constructor; auto. Qed.

Lemma sum_r s : Forall (fun i => (i < m)%nat) s -> sumQ (r s) m == 1 - inject_Z (Z.of_nat (length s)) * q.
Proof. induction s as [|i s IH]; intros HF.
  - simpl length. simpl Z.of_nat. rewrite <- p_sum. setoid_replace (sumQ p m - inject_Z 0 * q) with (sumQ p m) by (unfold inject_Z; ring).
    apply sumQ_ext. intros j _. apply r_nil.
  - inversion HF; subst. rewrite (sumQ_upd (r (i :: s)) (r s) i m) by (auto; intros j Hj; apply r_cons_neq; auto).
    rewrite IH by auto. rewrite r_cons_eq. simpl length. rewrite Nat2Z.inj_succ. unfold Z.succ. rewrite inject_Z_plus. ring. Qed.

Lemma lenq (s : list nat) : (length s < Pos.to_nat n)%nat -> 0 < 1 - inject_Z (Z.of_nat (length s)) * q.
Proof. intros H. unfold q. assert (Z.of_nat (length s) < Z.pos n)%Z by lia.
  set (k := Z.of_nat (length s)) in *. clearbody k.
  assert (E: inject_Z k * (1 # n) == k # n). { unfold Qeq, Qmult, inject_Z; simpl. ring. }
  rewrite E. assert (k # n < 1). { unfold Qlt; simpl. lia. } lra. Qed.

(* while fewer than n picks were made some remainder is positive *)
Lemma exists_pos s : greedy s -> (length s < Pos.to_nat n)%nat -> exists j, (j < m)%nat /\ 0 < r s j.
Proof. intros G Hlen.
  assert (Hs: 0 < sumQ (r s) m). { rewrite sum_r by (apply greedy_range; auto). apply lenq. exact Hlen. }
  assert (D: forall k, (k <= m)%nat -> (exists j, (j < k)%nat /\ 0 < r s j) \/ (forall j, (j < k)%nat -> r s j <= 0)).
  { induction k; intros Hk. right. intros j Hj. lia.
    destruct IHk as [[j [Hj Hp]]|Hall]. lia. left. exists j. split; [lia|exact Hp].
    destruct (Qlt_le_dec 0 (r s k)) as [Hp|Hn]. left. exists k. split; [lia|exact Hp].
    right. intros j Hj. destruct (Nat.eq_dec j k) as [->|Hne]. exact Hn. apply Hall. lia. }
  destruct (D m (Nat.le_refl m)) as [E|Hall]. exact E.
  exfalso. pose proof (sumQ_nonpos (r s) m Hall). lra. Qed.

(* upper bound: no cell is over-served by more than one disperser *)
Lemma upper s : greedy s -> (length s <= Pos.to_nat n)%nat -> forall j, (j < m)%nat -> - q <= r s j.
Proof. induction 1 as [|i s G IH Hi Hmax]; intros Hlen j Hj.
  - rewrite r_nil. pose proof (p_nonneg j Hj). pose proof q_pos. lra.
  - simpl in Hlen. destruct (Nat.eq_dec i j) as [->|Hne].
    + rewrite r_cons_eq.
      destruct (exists_pos s G ltac:(lia)) as [c [Hc Hpos]].
      pose proof (Hmax c Hc). lra.
    + rewrite r_cons_neq by auto. apply IH; auto. lia. Qed.

(* a cell that was served at least once is, up to 1/n, no better off than any other *)
Lemma J s : greedy s -> forall c d, (c < m)%nat -> (d < m)%nat -> (1 <= cnt s d)%nat -> r s c <= r s d + q.
Proof. induction 1 as [|i s G IH Hi Hmax]; intros c d Hc Hd Hk.
  - unfold cnt in Hk; simpl in Hk; lia.
  - destruct (Nat.eq_dec i d) as [->|Hne].
    + rewrite (r_cons_eq d s). pose proof (r_cons_le d s c). pose proof (Hmax c Hc). lra.
    + rewrite (r_cons_neq i s d) by auto. rewrite cnt_cons_neq in Hk by auto. pose proof (r_cons_le i s c). pose proof (IH c d Hc Hd Hk). lra. Qed.

(* lower bound: after all n picks no cell is under-served by more than one *)
Theorem lower s : greedy s -> length s = Pos.to_nat n -> forall c, (c < m)%nat -> r s c <= q.
Proof. intros G Hlen c Hc. destruct (Qlt_le_dec q (r s c)) as [Hgt|]; auto. exfalso.
  assert (Hsum: sumQ (r s) m == 0). { rewrite sum_r by (apply greedy_range; auto). rewrite Hlen. unfold q. rewrite positive_nat_Z. assert (E: inject_Z (Z.pos n) * (1 # n) == 1). { unfold Qeq, Qmult, inject_Z; simpl. rewrite Pos.mul_1_r. lia. } rewrite E. ring. }
  assert (0 < sumQ (r s) m). { apply (sumQ_nonneg_pos (r s) m c Hc). 2: pose proof q_pos; lra.
    intros j Hj. destruct (Nat.eq_dec (cnt s j) 0) as [Hz|Hnz].
    - unfold r. rewrite Hz. pose proof (p_nonneg j Hj). unfold inject_Z; simpl. lra.
    - pose proof (J s G c j Hc Hj ltac:(lia)). lra. }
  lra. Qed.

Theorem mirror s : greedy s -> forall c d, (c < m)%nat -> (d < m)%nat -> p c == p d -> (cnt s c <= S (cnt s d))%nat.
Proof. intros G c d Hc Hd Hp. destruct (le_lt_dec (cnt s c) (S (cnt s d))) as [|Hlt]; auto. exfalso.
  assert (1 <= cnt s c)%nat by lia. pose proof (J s G d c Hd Hc H) as HJ. unfold r in HJ. rewrite Hp in HJ.
  assert (inject_Z (Z.of_nat (cnt s d)) + 2 <= inject_Z (Z.of_nat (cnt s c))). { rewrite <- (inject_Z_plus _ 2). rewrite <- Zle_Qle. lia. }
  pose proof q_pos. nra. Qed.

(* the two bounds in terms of counts: | cnt - n * p | <= 1 *)
Lemma share_of_r s c : inject_Z (Z.pos n) * r s c == inject_Z (Z.pos n) * p c - inject_Z (Z.of_nat (cnt s c)).
Proof. unfold r, q. assert (E: inject_Z (Z.pos n) * (1 # n) == 1). { unfold Qeq, Qmult, inject_Z; simpl. rewrite Pos.mul_1_r. lia. }
  setoid_replace (inject_Z (Z.pos n) * (p c - inject_Z (Z.of_nat (cnt s c)) * (1 # n)))
    with (inject_Z (Z.pos n) * p c - inject_Z (Z.of_nat (cnt s c)) * (inject_Z (Z.pos n) * (1 # n))) by ring.
  rewrite E. ring. Qed.

Lemma nq_one : inject_Z (Z.pos n) * q == 1.
Proof. unfold q, Qeq, Qmult, inject_Z; simpl. rewrite Pos.mul_1_r. lia. Qed.

Theorem share s : greedy s -> length s = Pos.to_nat n -> forall c, (c < m)%nat ->
  inject_Z (Z.pos n) * p c - 1 <= inject_Z (Z.of_nat (cnt s c)) <= inject_Z (Z.pos n) * p c + 1.
Proof. intros G Hlen c Hc.
  pose proof (upper s G ltac:(lia) c Hc) as Hu. pose proof (lower s G Hlen c Hc) as Hl.
  pose proof (share_of_r s c) as E. pose proof nq_one as N.
  assert (Hn: 0 < inject_Z (Z.pos n)) by (unfold Qlt, inject_Z; simpl; lia).
  split; nra. Qed.

(* at any moment (not only after n picks) no cell is ahead by more than one *)
Theorem share_upper_any s : greedy s -> (length s <= Pos.to_nat n)%nat -> forall c, (c < m)%nat ->
  inject_Z (Z.of_nat (cnt s c)) <= inject_Z (Z.pos n) * p c + 1.
Proof. intros G Hlen c Hc. pose proof (upper s G Hlen c Hc) as Hu.
  pose proof (share_of_r s c) as E. pose proof nq_one as N.
  assert (Hn: 0 < inject_Z (Z.pos n)) by (unfold Qlt, inject_Z; simpl; lia). nra. Qed.
End Greedy.

(* ------------------------------------------------------------------ *)
(* 2. the executable allotment                                          *)
(* ------------------------------------------------------------------ *)
Lemma Qgtb_true a b : Qgtb a b = true <-> b < a.
Proof. unfold Qgtb. rewrite negb_true_iff. split; intros H.
  - apply Qnot_le_lt. intros C. apply Qle_bool_iff in C. congruence.
  - destruct (Qle_bool a b) eqn:E; auto. apply Qle_bool_iff in E. lra. Qed.

Lemma Qgtb_false a b : Qgtb a b = false <-> a <= b.
Proof. unfold Qgtb. rewrite negb_false_iff. apply Qle_bool_iff. Qed.

Lemma argmax_from_spec : forall l best bi k,
  let res := fst (argmax_from Q Qgtb best bi k l) in
  let v := snd (argmax_from Q Qgtb best bi k l) in
  (forall x, In x l -> x <= v) /\ best <= v /\
  ((res = bi /\ v = best /\ (forall x, In x l -> x <= best)) \/
   (exists idx, res = Some (k + idx)%nat /\ (idx < length l)%nat /\ nth idx l 0 = v /\ best < v /\
        forall j, (j < idx)%nat -> nth j l 0 < v)).
Proof.
  induction l as [|a l IH]; intros best bi k; simpl.
  - split. intros x []. split. lra. left. split; auto. split; auto. intros x [].
  - destruct (Qgtb a best) eqn:E.
    + apply Qgtb_true in E. specialize (IH a (Some k) (S k)). simpl in IH.
      destruct IH as [Hall [Hle Hcase]].
      split. { intros x [<-|Hx]; auto. }
      split. lra.
      right. destruct Hcase as [[Hr [Hv Hb]]|[idx [Hr [Hlt [Hn [Hbv Hfirst]]]]]].
      * exists O. split. rewrite Hr. f_equal. lia. split. lia. split. simpl. auto. split. rewrite Hv. exact E. intros j Hj. lia.
      * exists (S idx). split. rewrite Hr. f_equal. lia. split. lia. split. simpl. exact Hn. split. lra.
        intros j Hj. destruct j as [|j]. simpl. exact Hbv. simpl. apply Hfirst. lia.
    + apply Qgtb_false in E. specialize (IH best bi (S k)). simpl in IH.
      destruct IH as [Hall [Hle Hcase]].
      split. { intros x [<-|Hx]; auto. lra. }
      split. exact Hle.
      destruct Hcase as [[Hr [Hv Hb]]|[idx [Hr [Hlt [Hn [Hbv Hfirst]]]]]].
      * left. split; auto. split; auto. intros x [<-|Hx]; auto.
      * right. exists (S idx). split. rewrite Hr. f_equal. lia. split. lia. split. simpl. exact Hn. split. exact Hbv.
        intros j Hj. destruct j as [|j]. simpl. lra. simpl. apply Hfirst. lia.
Qed.

Lemma pick_spec (w : window Q) work :
  (0 < w_rows w)%Z -> (0 < w_cols w)%Z ->
  (exists x, In x work /\ Qmax0 < x) ->
  exists i, pick Q Qgtb Qmax0 w work = Some i /\ (i < length work)%nat /\
    (forall j, (j < length work)%nat -> nth j work 0 <= nth i work 0) /\
    (forall j, (j < i)%nat -> nth j work 0 < nth i work 0).
Proof.
  intros Hr Hc [x [Hin Hx]]. unfold pick.
  apply Z.ltb_lt in Hr. apply Z.ltb_lt in Hc. rewrite Hr, Hc. simpl.
  pose proof (argmax_from_spec work Qmax0 None 0%nat) as S. simpl in S.
  destruct S as [Hall [Hle [[_ [_ Hb]]|[idx [Hres [Hlt [Hn [Hbv Hfirst]]]]]]]].
  - specialize (Hb x Hin). lra.
  - exists idx. split. exact Hres. split. exact Hlt. split.
    + intros j Hj. rewrite Hn. apply Hall. apply nth_In. exact Hj.
    + intros j Hj. rewrite Hn. apply Hfirst. exact Hj.
Qed.

Lemma upd_length {A} k (f : A -> A) l : length (upd k f l) = length l.
Proof. revert k. induction l; intros k; destruct k; simpl; auto. Qed.

Lemma upd_nth_eq {A} k (f : A -> A) l d : (k < length l)%nat -> nth k (upd k f l) d = f (nth k l d).
Proof. revert k. induction l; intros k H; destruct k; simpl in *; try lia; auto. apply IHl. lia. Qed.

Lemma upd_nth_neq {A} k j (f : A -> A) l d : j <> k -> nth j (upd k f l) d = nth j l d.
Proof. revert k j. induction l; intros k j H; destruct k, j; simpl; auto; try congruence. Qed.

Lemma qsum_app a b : qsum (a ++ b) == qsum a + qsum b.
Proof. induction a; simpl. ring. rewrite IHa. ring. Qed.

Lemma sumQ_nth l : sumQ (fun j => nth j l 0) (length l) == qsum l.
Proof. induction l as [|a l IH] using rev_ind. reflexivity.
  rewrite app_length. simpl length. rewrite Nat.add_1_r. simpl sumQ.
  rewrite qsum_app. simpl qsum. rewrite app_nth2 by lia. rewrite Nat.sub_diag. simpl nth.
  rewrite (sumQ_ext _ (fun j => nth j l 0)). rewrite IH. ring.
  intros j Hj. rewrite app_nth1 by exact Hj. reflexivity. Qed.

Record window_ok (w : window Q) : Prop := mk_window_ok {
  wok_rows : (0 < w_rows w)%Z;
  wok_cols : (0 < w_cols w)%Z;
  wok_len : length (w_prob w) = Z.to_nat (w_rows w * w_cols w);
  wok_nonneg : forall x, In x (w_prob w) -> 0 <= x;
  wok_sum : qsum (w_prob w) == 1 }.

Lemma Qinv_n_q n : Qinv_n (Z.pos n) == q n.
Proof. unfold Qinv_n, q, Qdiv, Qinv, inject_Z. simpl. ring. Qed.

(* a call with a new source cell does not depend on what happened before *)
Lemma qcall_reset w row col nz st : (row <> ks_prow st \/ col <> ks_pcol st) ->
  qcall w row col nz st = qcall w row col nz (mkkstate row col (Qinv_n nz) (w_prob w)).
Proof. intros H. unfold qcall, kcall. simpl.
  rewrite !Z.eqb_refl. simpl.
  destruct (Z.eqb_spec row (ks_prow st)); destruct (Z.eqb_spec col (ks_pcol st)); simpl; try reflexivity.
  exfalso. destruct H; contradiction. Qed.

Lemma cell_of_inj (w : window Q) row col a b : (0 < w_cols w)%Z -> cell_eqb (cell_of w row col a) (cell_of w row col b) = Nat.eqb a b.
Proof. intros Hc. unfold cell_eqb, cell_of, movement. simpl.
  destruct (Nat.eqb_spec a b) as [->|Hne]. rewrite !Z.eqb_refl. reflexivity.
  apply andb_false_iff.
  destruct (Z.eqb_spec (row + (Z.of_nat a / w_cols w - mid (w_rows w))) (row + (Z.of_nat b / w_cols w - mid (w_rows w)))) as [E1|]; [|left; reflexivity].
  destruct (Z.eqb_spec (col + (Z.of_nat a mod w_cols w - mid (w_cols w))) (col + (Z.of_nat b mod w_cols w - mid (w_cols w)))) as [E2|]; [|right; reflexivity].
  exfalso. apply Hne. apply Nat2Z.inj.
  rewrite (Z.div_mod (Z.of_nat a) (w_cols w)) by lia. rewrite (Z.div_mod (Z.of_nat b) (w_cols w)) by lia.
  assert (Z.of_nat a / w_cols w = Z.of_nat b / w_cols w)%Z by lia.
  assert (Z.of_nat a mod w_cols w = Z.of_nat b mod w_cols w)%Z by lia. congruence. Qed.

Lemma count_cell_app c a b : count_cell c (a ++ b) = (count_cell c a + count_cell c b)%nat.
Proof. unfold count_cell. rewrite filter_app, app_length. reflexivity. Qed.

Lemma count_cell_picks (w : window Q) row col s c : (0 < w_cols w)%Z ->
  count_cell (cell_of w row col c) (map (cell_of w row col) (rev s)) = cnt s c.
Proof. intros Hc. induction s as [|i s IH]. reflexivity.
  simpl rev. rewrite map_app, count_cell_app, IH. simpl map. unfold count_cell. simpl filter.
  rewrite cell_of_inj by exact Hc. unfold cnt. simpl count_occ.
  destruct (Nat.eqb_spec c i) as [->|Hne].
  - destruct (Nat.eq_dec i i); [|congruence]. simpl. lia.
  - destruct (Nat.eq_dec i c); [congruence|]. simpl. lia. Qed.

Section Run.
Variable w : window Q.
Variable n : positive.
Variable row col : Z.
Hypothesis Hok : window_ok w.

Definition pw (j : nat) : Q := nth j (w_prob w) 0.
Definition mw : nat := length (w_prob w).

Lemma pw_nonneg : forall j, (j < mw)%nat -> 0 <= pw j.
Proof. intros j Hj. apply (wok_nonneg w Hok). apply nth_In. exact Hj. Qed.

Lemma pw_sum : sumQ pw mw == 1.
Proof. unfold pw, mw. rewrite sumQ_nth. apply (wok_sum w Hok). Qed.

Definition the_call : Z * Z * Z := (row, col, Z.pos n).

(* the state agrees with the pick sequence s (latest first) *)
Definition Inv (st : kstate Q) (s : list nat) : Prop :=
  ks_prow st = row /\ ks_pcol st = col /\ ks_prop st = Qinv_n (Z.pos n) /\
  length (ks_work st) = mw /\
  (forall j, (j < mw)%nat -> nth j (ks_work st) 0 == r pw n s j) /\
  greedy mw pw n s.

Definition fresh_state : kstate Q := mkkstate row col (Qinv_n (Z.pos n)) (w_prob w).

Lemma Inv_fresh : Inv fresh_state [].
Proof. unfold Inv, fresh_state. simpl. split; [reflexivity|]. split; [reflexivity|]. split; [reflexivity|].
  split; [reflexivity|]. split. intros j Hj. rewrite r_nil. reflexivity. constructor. Qed.

Lemma qcall_step st s : Inv st s -> (length s < Pos.to_nat n)%nat ->
  exists i, fst (qcall w row col (Z.pos n) st) = cell_of w row col i /\
            Inv (snd (qcall w row col (Z.pos n) st)) (i :: s) /\
            (forall j, (j < i)%nat -> r pw n s j < r pw n s i).
Proof.
  intros [Hpr [Hpc [Hprop [Hlen [Hval G]]]]] Hs.
  destruct (exists_pos mw pw n pw_sum s G Hs) as [c [Hc Hpos]].
  assert (Hex: exists x, In x (ks_work st) /\ Qmax0 < x).
  { exists (nth c (ks_work st) 0). split. apply nth_In. lia.
    rewrite (Hval c Hc). unfold Qmax0. assert (inject_Z (-2147483647) < 0) by reflexivity. lra. }
  destruct (pick_spec w (ks_work st) (wok_rows w Hok) (wok_cols w Hok) Hex) as [i [Hpick [Hi [Hmax Hfirst]]]].
  exists i. unfold qcall, kcall. rewrite Hpr, Hpc, !Z.eqb_refl. simpl negb. simpl orb. cbv iota.
  rewrite Hpick. simpl fst. simpl snd.
  split. reflexivity.
  rewrite Hlen in Hi.
  split.
  - unfold Inv. simpl. split; [reflexivity|]. split; [reflexivity|]. split; [exact Hprop|].
    split. rewrite upd_length. exact Hlen.
    split.
    + intros j Hj. destruct (Nat.eq_dec j i) as [->|Hne].
      * rewrite upd_nth_eq by lia. unfold Qsubr. rewrite Qred_correct. rewrite r_cons_eq.
        rewrite (Hval i Hj). rewrite Hprop. rewrite Qinv_n_q. reflexivity.
      * rewrite upd_nth_neq by exact Hne. rewrite r_cons_neq by auto. apply Hval. exact Hj.
    + constructor. exact G. exact Hi. intros j Hj. rewrite <- (Hval j Hj), <- (Hval i Hi). apply Hmax. lia.
  - intros j Hj. rewrite <- (Hval j ltac:(lia)), <- (Hval i Hi). apply Hfirst. exact Hj.
Qed.

Lemma qrun_from_inv : forall t st s, Inv st s -> (length s + t <= Pos.to_nat n)%nat ->
  exists s', length s' = t /\ Inv (snd (qrun w (repeat the_call t) st)) (s' ++ s) /\
             fst (qrun w (repeat the_call t) st) = map (cell_of w row col) (rev s').
Proof.
  induction t as [|t IH]; intros st s HI Hlen.
  - exists []. simpl. auto.
  - destruct (qcall_step st s HI ltac:(lia)) as [i [Hout [HI' _]]].
    destruct (IH (snd (qcall w row col (Z.pos n) st)) (i :: s) HI' ltac:(simpl; lia)) as [s' [Hl [HI'' Hmap]]].
    exists (s' ++ [i]). split. rewrite app_length. simpl. lia.
    simpl repeat. unfold the_call at 1 3. unfold qrun. simpl krun. fold qrun. fold (qcall w row col (Z.pos n) st). fold the_call.
    split.
    + simpl snd. rewrite <- app_assoc. simpl app. exact HI''.
    + simpl fst. rewrite Hout, Hmap. rewrite rev_app_distr. simpl. reflexivity.
Qed.

(* The executable allotment satisfies the relational specification: the t <= n
   calls that follow the arrival of a new source cell return the cells of a
   greedy pick sequence. *)
Theorem qrun_greedy : forall t st0, (row <> ks_prow st0 \/ col <> ks_pcol st0) ->
  (t <= Pos.to_nat n)%nat ->
  exists s, length s = t /\ greedy mw pw n s /\
            fst (qrun w (repeat the_call t) st0) = map (cell_of w row col) (rev s).
Proof.
  intros t st0 Hnew Ht. destruct t as [|t].
  - exists []. split; [reflexivity|]. split; [constructor|reflexivity].
  - destruct (qrun_from_inv (S t) fresh_state [] Inv_fresh ltac:(simpl; lia)) as [s [Hl [[_ [_ [_ [_ [_ G]]]]] Hmap]]].
    exists s. split. exact Hl. split. rewrite app_nil_r in G. exact G.
    rewrite <- Hmap. simpl repeat. unfold the_call at 1 3. unfold qrun. simpl krun. fold qrun.
    fold (qcall w row col (Z.pos n) st0). fold (qcall w row col (Z.pos n) fresh_state).
    rewrite (qcall_reset w row col (Z.pos n) st0 Hnew). reflexivity.
Qed.
End Run.

(* ---- statements about the cells the executable returns ---- *)
Definition is_new_source (row col : Z) (st : kstate Q) : Prop := row <> ks_prow st \/ col <> ks_pcol st.

Theorem allot_share_bound : forall (w : window Q) (n : positive) (row col : Z) (st0 : kstate Q),
  window_ok w -> is_new_source row col st0 ->
  let out := fst (qrun w (repeat (row, col, Z.pos n) (Pos.to_nat n)) st0) in
  forall c, (c < length (w_prob w))%nat ->
    inject_Z (Z.pos n) * nth c (w_prob w) 0 - 1
      <= inject_Z (Z.of_nat (count_cell (cell_of w row col c) out))
      <= inject_Z (Z.pos n) * nth c (w_prob w) 0 + 1.
Proof.
  intros w n row col st0 Hok Hnew out c Hc. unfold out.
  destruct (qrun_greedy w n row col Hok (Pos.to_nat n) st0 Hnew (Nat.le_refl _)) as [s [Hl [G Hmap]]].
  unfold the_call in Hmap. rewrite Hmap. rewrite (count_cell_picks w row col s c (wok_cols w Hok)).
  exact (share (mw w) (pw w) n (pw_nonneg w Hok) (pw_sum w Hok) s G Hl c Hc).
Qed.

(* during the n calls no cell is ever ahead of its share by more than one *)
Theorem allot_never_ahead : forall (w : window Q) (n : positive) (row col : Z) (st0 : kstate Q) (t : nat),
  window_ok w -> is_new_source row col st0 -> (t <= Pos.to_nat n)%nat ->
  let out := fst (qrun w (repeat (row, col, Z.pos n) t) st0) in
  forall c, (c < length (w_prob w))%nat ->
    inject_Z (Z.of_nat (count_cell (cell_of w row col c) out)) <= inject_Z (Z.pos n) * nth c (w_prob w) 0 + 1.
Proof.
  intros w n row col st0 t Hok Hnew Ht out c Hc. unfold out.
  destruct (qrun_greedy w n row col Hok t st0 Hnew Ht) as [s [Hl [G Hmap]]].
  unfold the_call in Hmap. rewrite Hmap. rewrite (count_cell_picks w row col s c (wok_cols w Hok)).
  exact (share_upper_any (mw w) (pw w) n (pw_nonneg w Hok) (pw_sum w Hok) s G ltac:(lia) c Hc).
Qed.

(* cells of equal weight: counts differ by at most one, at every moment *)
Theorem allot_mirror_bound : forall (w : window Q) (n : positive) (row col : Z) (st0 : kstate Q) (t : nat),
  window_ok w -> is_new_source row col st0 -> (t <= Pos.to_nat n)%nat ->
  let out := fst (qrun w (repeat (row, col, Z.pos n) t) st0) in
  forall c d, (c < length (w_prob w))%nat -> (d < length (w_prob w))%nat ->
    nth c (w_prob w) 0 == nth d (w_prob w) 0 ->
    (count_cell (cell_of w row col c) out <= S (count_cell (cell_of w row col d) out))%nat /\
    (count_cell (cell_of w row col d) out <= S (count_cell (cell_of w row col c) out))%nat.
Proof.
  intros w n row col st0 t Hok Hnew Ht out c d Hc Hd Hp. unfold out.
  destruct (qrun_greedy w n row col Hok t st0 Hnew Ht) as [s [Hl [G Hmap]]].
  unfold the_call in Hmap. rewrite Hmap. rewrite !(count_cell_picks w row col s _ (wok_cols w Hok)).
  split.
  - exact (mirror (mw w) (pw w) n s G c d Hc Hd Hp).
  - apply (mirror (mw w) (pw w) n s G d c Hd Hc). symmetry. exact Hp.
Qed.

(* every returned cell lies in the window placed on the source cell *)
Theorem allot_cells_in_window : forall (w : window Q) (n : positive) (row col : Z) (st0 : kstate Q) (t : nat),
  window_ok w -> is_new_source row col st0 -> (t <= Pos.to_nat n)%nat ->
  Forall (fun c => exists k, (k < length (w_prob w))%nat /\ c = cell_of w row col k)
         (fst (qrun w (repeat (row, col, Z.pos n) t) st0)).
Proof.
  intros w n row col st0 t Hok Hnew Ht.
  destruct (qrun_greedy w n row col Hok t st0 Hnew Ht) as [s [Hl [G Hmap]]].
  unfold the_call in Hmap. rewrite Hmap. apply Forall_forall. intros c Hin.
  apply in_map_iff in Hin. destruct Hin as [k [Hk Hin]]. exists k. split; [|auto].
  apply in_rev in Hin. pose proof (greedy_range _ _ _ _ G) as R. rewrite Forall_forall in R. exact (R k Hin).
Qed.

(* the first call for a new source returns the FIRST cell, in row-major order,
   whose weight is maximal *)
Theorem allot_first_maximum : forall (w : window Q) (n : positive) (row col : Z) (st0 : kstate Q),
  window_ok w -> is_new_source row col st0 ->
  exists i, fst (qcall w row col (Z.pos n) st0) = cell_of w row col i /\ (i < length (w_prob w))%nat /\
    (forall j, (j < length (w_prob w))%nat -> nth j (w_prob w) 0 <= nth i (w_prob w) 0) /\
    (forall j, (j < i)%nat -> nth j (w_prob w) 0 < nth i (w_prob w) 0).
Proof.
  intros w n row col st0 Hok Hnew. rewrite (qcall_reset w row col (Z.pos n) st0 Hnew).
  destruct (qcall_step w n row col Hok (fresh_state w n row col) [] (Inv_fresh w n row col)) as [i [Hout [HI Hfirst]]].
  simpl. lia.
  destruct HI as [_ [_ [_ [_ [_ G]]]]]. inversion G as [|i' s' G' Hi Hmax]; subst.
  exists i. split. exact Hout. split. exact Hi. split.
  - intros j Hj. specialize (Hmax j Hj). rewrite !r_nil in Hmax. exact Hmax.
  - intros j Hj. specialize (Hfirst j Hj). rewrite !r_nil in Hfirst. exact Hfirst.
Qed.

(* every later call picks the first maximum of the current remainders; stated
   on the internal invariant *)
Definition allot_step_first_maximum := qcall_step.

(* the allocation starts afresh for a new source cell: neither the returned cell
   nor the new state depends on the previous state *)
Theorem fresh_per_source : forall (w : window Q) (row col nz : Z) (st st' : kstate Q),
  is_new_source row col st -> is_new_source row col st' ->
  qcall w row col nz st = qcall w row col nz st'.
Proof. intros w row col nz st st' H H'. rewrite (qcall_reset w row col nz st H), (qcall_reset w row col nz st' H'). reflexivity. Qed.

Theorem fresh_per_source_run : forall (w : window Q) (row col nz : Z) (calls : list (Z * Z * Z)) (st st' : kstate Q),
  is_new_source row col st -> is_new_source row col st' ->
  qrun w ((row, col, nz) :: calls) st = qrun w ((row, col, nz) :: calls) st'.
Proof. intros w row col nz calls st st' H H'. unfold qrun. simpl.
  fold (qcall w row col nz st). fold (qcall w row col nz st'). rewrite (fresh_per_source w row col nz st st' H H'). reflexivity. Qed.

(* and it starts from the original weights with 1/n of the new source *)
Theorem fresh_state_after_reset : forall (w : window Q) (row col nz : Z) (st : kstate Q),
  is_new_source row col st ->
  qcall w row col nz st = qcall w row col nz (mkkstate row col (Qinv_n nz) (w_prob w)).
Proof. exact qcall_reset. Qed.

(* The constructor's state makes every first source cell (row, col >= 0) new. *)
Lemma qinit_new w row col : (0 <= row)%Z -> is_new_source row col (qinit w).
Proof. intros H. left. unfold qinit, kinit. simpl. lia. Qed.

(* NOT reset: the same cell arriving again as a source (a second spread step from
   the only infected cell, through an interface that keeps the kernel object)
   continues the old allotment.  Window 1x3 with weights 1/8, 3/4, 1/8 and
   8 dispersers twice: the second 8 dispersers go 3, 3, 2 instead of 1, 6, 1. *)
Definition w_138 : window Q := mkwindow 1 3 [1 # 8; 3 # 4; 1 # 8].

Lemma w_138_ok : window_ok w_138.
Proof. constructor; simpl; try reflexivity; try lia.
  intros x [<-|[<-|[<-|[]]]]; unfold Qle; simpl; lia. Qed.

Theorem fresh_same_cell_again_refuted :
  exists (w : window Q) (n : positive) (row col : Z),
    window_ok w /\
    let out := fst (qrun w (repeat (row, col, Z.pos n) (2 * Pos.to_nat n)) (qinit w)) in
    let second := skipn (Pos.to_nat n) out in
    exists c, (c < length (w_prob w))%nat /\
      inject_Z (Z.of_nat (count_cell (cell_of w row col c) second)) < inject_Z (Z.pos n) * nth c (w_prob w) 0 - 1.
Proof. exists w_138, 8%positive, 0%Z, 0%Z. split. exact w_138_ok.
  exists 1%nat. split. simpl. lia. vm_compute. reflexivity. Qed.

(* ------------------------------------------------------------------ *)
(* 3. the window                                                        *)
(* ------------------------------------------------------------------ *)
Lemma win_half_spec maxd res : 0 < res ->
  maxd <= inject_Z (win_half maxd res) * res /\ (inject_Z (win_half maxd res) - 1) * res < maxd.
Proof. intros Hr. unfold win_half.
  pose proof (Qle_ceiling (maxd / res)) as H1. pose proof (Qceiling_lt (maxd / res)) as H2.
  assert (E: maxd / res * res == maxd) by (field; lra).
  split.
  - rewrite <- E at 1. apply Qmult_le_compat_r. exact H1. lra.
  - rewrite <- E at 2. apply Qmult_lt_compat_r. exact Hr.
    unfold Z.sub in H2. rewrite inject_Z_plus in H2. exact H2. Qed.

Lemma win_half_nonneg maxd res : 0 <= maxd -> 0 < res -> (0 <= win_half maxd res)%Z.
Proof. intros Hm Hr. unfold win_half. change 0%Z with (Qceiling 0). apply Qceiling_resp_le.
  apply Qle_shift_div_l. exact Hr. lra. Qed.

Lemma mid_odd h : (0 <= h)%Z -> mid (h * 2 + 1) = h.
Proof. intros H. unfold mid. rewrite Z.quot_div_nonneg by lia.
  symmetry. apply Z.div_unique with (r := 1%Z); lia. Qed.

(* the window has 2h+1 columns / rows where h cells are the fewest that reach the
   maximum distance in the east-west / north-south direction *)
Lemma window_size maxd ew ns : 0 <= maxd -> 0 < ew -> 0 < ns ->
  let hc := win_half maxd ew in let hr := win_half maxd ns in
  win_cols maxd ew ns = (2 * hc + 1)%Z /\ win_rows maxd ew ns = (2 * hr + 1)%Z /\
  (0 <= hc)%Z /\ (0 <= hr)%Z /\
  mid (win_cols maxd ew ns) = hc /\ mid (win_rows maxd ew ns) = hr /\
  maxd <= inject_Z hc * ew /\ (inject_Z hc - 1) * ew < maxd /\
  maxd <= inject_Z hr * ns /\ (inject_Z hr - 1) * ns < maxd.
Proof. intros Hm He Hn hc hr.
  pose proof (win_half_nonneg maxd ew Hm He) as Hc0. pose proof (win_half_nonneg maxd ns Hm Hn) as Hr0.
  destruct (win_half_spec maxd ew He) as [A B]. destruct (win_half_spec maxd ns Hn) as [C D].
  unfold win_cols, win_rows. fold hc. fold hr.
  split. lia. split. lia. split. exact Hc0. split. exact Hr0.
  split. apply mid_odd. exact Hc0. split. apply mid_odd. exact Hr0.
  split. exact A. split. exact B. split. exact C. exact D. Qed.

Lemma sq_abs z x : (inject_Z (Z.abs z) * x) ^ 2 == (inject_Z z * x) ^ 2.
Proof. simpl. destruct (Z.abs_eq_or_opp z) as [->| ->]. reflexivity. rewrite inject_Z_opp. ring. Qed.

(* row offsets are scaled by the north-south resolution, column offsets by the
   east-west resolution *)
Lemma distance_axes rows cols ew ns di dj :
  dist2 rows cols ew ns (mid rows + di) (mid cols + dj) == (inject_Z di * ns) ^ 2 + (inject_Z dj * ew) ^ 2.
Proof. unfold dist2.
  replace (mid rows - (mid rows + di))%Z with (- di)%Z by lia.
  replace (mid cols - (mid cols + dj))%Z with (- dj)%Z by lia.
  rewrite !sq_abs, !inject_Z_opp. simpl. ring. Qed.

Lemma distance_one_row rows cols ew ns : dist2 rows cols ew ns (mid rows + 1) (mid cols) == ns ^ 2.
Proof. pose proof (distance_axes rows cols ew ns 1 0) as H. rewrite Z.add_0_r in H. rewrite H. simpl. unfold inject_Z. ring. Qed.

Lemma distance_one_col rows cols ew ns : dist2 rows cols ew ns (mid rows) (mid cols + 1) == ew ^ 2.
Proof. pose proof (distance_axes rows cols ew ns 0 1) as H. rewrite Z.add_0_r in H. rewrite H. simpl. unfold inject_Z. ring. Qed.

(* mirror images have the same distance (Leibniz-equal rationals) *)
Lemma dist2_mirror_rows h cols ew ns i j : (0 <= h)%Z ->
  dist2 (h * 2 + 1) cols ew ns (h * 2 + 1 - 1 - i) j = dist2 (h * 2 + 1) cols ew ns i j.
Proof. intros H. unfold dist2. rewrite mid_odd by exact H.
  replace (Z.abs (h - (h * 2 + 1 - 1 - i))) with (Z.abs (h - i)) by lia. reflexivity. Qed.

Lemma dist2_mirror_cols rows h ew ns i j : (0 <= h)%Z ->
  dist2 rows (h * 2 + 1) ew ns i (h * 2 + 1 - 1 - j) = dist2 rows (h * 2 + 1) ew ns i j.
Proof. intros H. unfold dist2. rewrite mid_odd by exact H.
  replace (Z.abs (h - (h * 2 + 1 - 1 - j))) with (Z.abs (h - j)) by lia. reflexivity. Qed.

(* cells in row-major order *)
Lemma zrange_length n : length (zrange n) = Z.to_nat n.
Proof. unfold zrange. rewrite map_length, seq_length. reflexivity. Qed.

Lemma zrange_nth n k d : (k < Z.to_nat n)%nat -> nth k (zrange n) d = Z.of_nat k.
Proof. intros H. unfold zrange. rewrite (nth_indep _ d (Z.of_nat 0)) by (rewrite map_length, seq_length; exact H).
  rewrite map_nth. rewrite seq_nth by exact H. reflexivity. Qed.

Lemma flat_map_nth {A B} (f : A -> list B) (c : nat) (l : list A) (a b : nat) (da : A) (db : B) :
  (forall x, In x l -> length (f x) = c) -> (a < length l)%nat -> (b < c)%nat ->
  nth (a * c + b) (flat_map f l) db = nth b (f (nth a l da)) db.
Proof. revert a. induction l as [|x l IH]; intros a Hf Ha Hb. simpl in Ha. lia.
  simpl flat_map. destruct a as [|a].
  - simpl. rewrite app_nth1. reflexivity. rewrite (Hf x (or_introl eq_refl)). exact Hb.
  - rewrite app_nth2; rewrite (Hf x (or_introl eq_refl)). 2: simpl; lia.
    replace (S a * c + b - c)%nat with (a * c + b)%nat by (simpl; lia).
    simpl nth. apply IH. intros y Hy. apply Hf. right. exact Hy. simpl in Ha. lia. exact Hb. Qed.

Lemma flat_map_length_const {A B} (f : A -> list B) (c : nat) (l : list A) :
  (forall x, In x l -> length (f x) = c) -> length (flat_map f l) = (length l * c)%nat.
Proof. induction l as [|x l IH]; intros Hf. reflexivity. simpl. rewrite app_length, IH, (Hf x (or_introl eq_refl)). reflexivity.
  intros y Hy. apply Hf. right. exact Hy. Qed.

Lemma cells_length rows cols : length (cells rows cols) = (Z.to_nat rows * Z.to_nat cols)%nat.
Proof. unfold cells. rewrite (flat_map_length_const _ (Z.to_nat cols)). rewrite zrange_length. reflexivity.
  intros x _. rewrite map_length, zrange_length. reflexivity. Qed.

Lemma cells_nth rows cols i j d : (0 <= i < rows)%Z -> (0 <= j < cols)%Z ->
  nth (lin cols i j) (cells rows cols) d = (i, j).
Proof. intros Hi Hj. unfold lin, cells.
  replace (Z.to_nat (i * cols + j)) with (Z.to_nat i * Z.to_nat cols + Z.to_nat j)%nat
    by (rewrite Z2Nat.inj_add, Z2Nat.inj_mul by nia; reflexivity).
  rewrite (flat_map_nth _ (Z.to_nat cols) _ _ _ 0%Z d).
  - rewrite zrange_nth by lia. rewrite (nth_indep _ d ((fun j0 => (Z.of_nat (Z.to_nat i), j0)) 0%Z)) by (rewrite map_length, zrange_length; lia).
    rewrite map_nth. rewrite zrange_nth by lia. rewrite !Z2Nat.id by lia. reflexivity.
  - intros x _. rewrite map_length, zrange_length. reflexivity.
  - rewrite zrange_length. lia.
  - lia. Qed.

Lemma lin_lt rows cols i j : (0 <= i < rows)%Z -> (0 <= j < cols)%Z -> (lin cols i j < Z.to_nat rows * Z.to_nat cols)%nat.
Proof. intros Hi Hj. unfold lin. rewrite <- Z2Nat.inj_mul by lia. apply Z2Nat.inj_lt; nia. Qed.

Lemma map_nth_in {A B} (f : A -> B) l k da db : (k < length l)%nat -> nth k (map f l) db = f (nth k l da).
Proof. intros H. rewrite (nth_indep _ db (f da)) by (rewrite map_length; exact H). apply map_nth. Qed.

Section WindowProps.
Variable dens : Q -> Q.

Lemma raw_weights_length rows cols ew ns : length (raw_weights dens rows cols ew ns) = (Z.to_nat rows * Z.to_nat cols)%nat.
Proof. unfold raw_weights. rewrite map_length. apply cells_length. Qed.

(* weight of window cell (i, j) = density at its distance / sum over the window *)
Lemma make_window_weight maxd ew ns i j :
  let w := make_window dens maxd ew ns in
  (0 <= i < w_rows w)%Z -> (0 <= j < w_cols w)%Z ->
  nth (lin (w_cols w) i j) (w_prob w) 0 =
    dens (dist2 (w_rows w) (w_cols w) ew ns i j) / qsum (raw_weights dens (w_rows w) (w_cols w) ew ns).
Proof. intros w Hi Hj. unfold w, make_window in *. simpl in *. unfold normalise.
  rewrite (map_nth_in _ _ _ 0 0) by (rewrite raw_weights_length; apply lin_lt; assumption).
  unfold raw_weights at 1. rewrite (map_nth_in _ _ _ (0%Z, 0%Z) 0) by (rewrite cells_length; apply lin_lt; assumption).
  rewrite cells_nth by assumption. reflexivity. Qed.

(* the window is symmetric: mirror images (up-down, left-right, hence also
   through the centre) carry the same weight *)
Theorem window_symmetric maxd ew ns i j : 0 <= maxd -> 0 < ew -> 0 < ns ->
  let w := make_window dens maxd ew ns in
  (0 <= i < w_rows w)%Z -> (0 <= j < w_cols w)%Z ->
  nth (lin (w_cols w) (w_rows w - 1 - i) j) (w_prob w) 0 = nth (lin (w_cols w) i j) (w_prob w) 0 /\
  nth (lin (w_cols w) i (w_cols w - 1 - j)) (w_prob w) 0 = nth (lin (w_cols w) i j) (w_prob w) 0 /\
  nth (lin (w_cols w) (w_rows w - 1 - i) (w_cols w - 1 - j)) (w_prob w) 0 = nth (lin (w_cols w) i j) (w_prob w) 0.
Proof. intros Hm He Hn w Hi Hj.
  pose proof (win_half_nonneg maxd ew Hm He) as Hc0. pose proof (win_half_nonneg maxd ns Hm Hn) as Hr0.
  assert (Hi' : (0 <= w_rows w - 1 - i < w_rows w)%Z) by lia.
  assert (Hj' : (0 <= w_cols w - 1 - j < w_cols w)%Z) by lia.
  subst w. rewrite !make_window_weight by assumption.
  unfold make_window. simpl. unfold win_rows, win_cols.
  rewrite (dist2_mirror_rows _ _ ew ns i (win_half maxd ew * 2 + 1 - 1 - j) Hr0).
  rewrite (dist2_mirror_rows _ _ ew ns i j Hr0).
  rewrite (dist2_mirror_cols _ _ ew ns i j Hc0). auto. Qed.

Lemma qsum_map_div l s : ~ s == 0 -> qsum (map (fun x => x / s) l) == qsum l / s.
Proof. intros Hs. induction l; simpl. field. exact Hs. rewrite IHl. field. exact Hs. Qed.

(* the constructed window satisfies the hypotheses of the allotment theorems
   whenever the density is non-negative and not zero everywhere in the window *)
Theorem make_window_ok maxd ew ns : 0 <= maxd -> 0 < ew -> 0 < ns ->
  (forall d, 0 <= dens d) ->
  0 < qsum (raw_weights dens (win_rows maxd ew ns) (win_cols maxd ew ns) ew ns) ->
  window_ok (make_window dens maxd ew ns).
Proof. intros Hm He Hn Hd Hs.
  pose proof (win_half_nonneg maxd ew Hm He) as Hc0. pose proof (win_half_nonneg maxd ns Hm Hn) as Hr0.
  unfold make_window. constructor; simpl.
  - unfold win_rows. lia.
  - unfold win_cols. lia.
  - unfold normalise. rewrite map_length, raw_weights_length. rewrite Z2Nat.inj_mul. reflexivity.
    unfold win_rows; lia. unfold win_cols; lia.
  - intros x Hx. unfold normalise in Hx. apply in_map_iff in Hx. destruct Hx as [y [<- Hy]].
    unfold raw_weights in Hy. apply in_map_iff in Hy. destruct Hy as [c [<- _]].
    apply Qle_shift_div_l. exact Hs. pose proof (Hd (dist2 (win_rows maxd ew ns) (win_cols maxd ew ns) ew ns (fst c) (snd c))). lra.
  - unfold normalise. rewrite qsum_map_div by lra. field. lra. Qed.
End WindowProps.

(* mirror-image cells of the window receive the same number of dispersers up to one *)
Theorem allot_mirror_cells : forall (dens : Q -> Q) (maxd ew ns : Q) (n : positive) (row col : Z) (st0 : kstate Q) (t : nat),
  0 <= maxd -> 0 < ew -> 0 < ns ->
  let w := make_window dens maxd ew ns in
  window_ok w -> is_new_source row col st0 -> (t <= Pos.to_nat n)%nat ->
  let out := fst (qrun w (repeat (row, col, Z.pos n) t) st0) in
  forall i j i' j', (0 <= i < w_rows w)%Z -> (0 <= j < w_cols w)%Z ->
    (i' = i \/ i' = w_rows w - 1 - i)%Z -> (j' = j \/ j' = w_cols w - 1 - j)%Z ->
    let a := count_cell (cell_of w row col (lin (w_cols w) i j)) out in
    let b := count_cell (cell_of w row col (lin (w_cols w) i' j')) out in
    (a <= S b)%nat /\ (b <= S a)%nat.
Proof.
  intros dens maxd ew ns n row col st0 t Hm He Hn w Hok Hnew Ht out i j i' j' Hi Hj Hi' Hj' a b.
  assert (Hlen: length (w_prob w) = (Z.to_nat (w_rows w) * Z.to_nat (w_cols w))%nat).
  { rewrite (wok_len w Hok). apply Z2Nat.inj_mul; pose proof (wok_rows w Hok); pose proof (wok_cols w Hok); lia. }
  assert (Hi2 : (0 <= i' < w_rows w)%Z) by lia. assert (Hj2 : (0 <= j' < w_cols w)%Z) by lia.
  apply (allot_mirror_bound w n row col st0 t Hok Hnew Ht).
  - rewrite Hlen. apply lin_lt; assumption.
  - rewrite Hlen. apply lin_lt; assumption.
  - destruct (window_symmetric dens maxd ew ns i j Hm He Hn Hi Hj) as [S1 [S2 S3]]. fold w in S1, S2, S3.
    destruct Hi' as [-> | ->]; destruct Hj' as [-> | ->].
    + reflexivity.
    + rewrite S2. reflexivity.
    + rewrite S1. reflexivity.
    + rewrite S3. reflexivity.
Qed.

(* ------------------------------------------------------------------ *)
(* 4. tie to the statements of deterministic_kernel.hpp                 *)
(* ------------------------------------------------------------------ *)
Lemma generated_number_of_columns maxd ew ns : DetWindow.det_number_of_columns maxd ew ns = win_cols maxd ew ns.
Proof. reflexivity. Qed.
Lemma generated_number_of_rows maxd ew ns : DetWindow.det_number_of_rows maxd ew ns = win_rows maxd ew ns.
Proof. reflexivity. Qed.
Lemma generated_mid rows cols : DetWindow.det_mid_row rows cols = mid rows /\ DetWindow.det_mid_col rows cols = mid cols.
Proof. split; reflexivity. Qed.
(* the distance statement of the header is the model's distance: this is the
   lemma that fails while the two resolutions are swapped in the header *)
Lemma generated_distance rows cols ew ns i j :
  DetWindow.det_distance_sq (mid rows) (mid cols) i j ew ns == dist2 rows cols ew ns i j.
Proof. unfold DetWindow.det_distance_sq, dist2. ring. Qed.
