(* C08  Scheduled actions fire in exactly the intended steps; input indices agree.
   Statements only; proofs are in SchedProps.v.  `wf_step` (valid dates in
   order) holds for every step of a constructed scheduler (C08_steps_wf). *)
From Coq Require Import ZArith List String.
From Pops Require Import Err DateDefs DateProps SchedDefs SchedProps.
Import ListNotations.
Local Open Scope Z_scope.

Theorem C08_steps_wf : forall x l, tiles_from x l -> Forall wf_step l.
Proof. exact tiles_wf. Qed.
Print Assumptions C08_steps_wf.

(* Yearly action (month, day <= 28): step i fires exactly when it contains
   that date of some year; steps shorter than a year, straddling or not. *)
Theorem C08_yearly : forall sc month day i st,
  nth_error (sc_steps sc) i = Some st -> wf_step st ->
  1 <= month <= 12 -> 1 <= day <= 28 -> dn (s_end st) - dn (s_start st) + 1 <= 365 ->
  exists b, nth_error (schedule_action_yearly sc month day) i = Some b /\
            (b = true <-> exists y, owns (mkdate y month day) st).
Proof.
  intros sc month day i st Hn W Hm Hd Hl.
  exact (ex_intro _ _ (conj (schedule_yearly_nth sc month day i st Hn) (yearly_iff month day st W Hm Hd Hl))).
Qed.
Print Assumptions C08_yearly.

Theorem C08_end_of_year : forall sc i st,
  nth_error (sc_steps sc) i = Some st -> wf_step st ->
  exists b, nth_error (schedule_action_end_of_year sc) i = Some b /\
            (b = true <-> exists y, owns (mkdate y 12 31) st).
Proof.
  intros sc i st Hn W.
  exact (ex_intro _ _ (conj (schedule_eoy_nth sc i st Hn) (end_of_year_iff st W))).
Qed.
Print Assumptions C08_end_of_year.

Theorem C08_monthly : forall sc i st,
  nth_error (sc_steps sc) i = Some st -> wf_step st ->
  exists b, nth_error (schedule_action_monthly sc) i = Some b /\
            (b = true <-> exists e, month_end e /\ owns e st).
Proof.
  intros sc i st Hn W.
  exact (ex_intro _ _ (conj (schedule_monthly_nth sc i st Hn) (monthly_iff st W))).
Qed.
Print Assumptions C08_monthly.

Theorem C08_every_n_steps : forall sc n i, 0 < n -> (i < List.length (sc_steps sc))%nat ->
  exists b, nth_error (schedule_action_nsteps sc n) i = Some b /\
            (b = true <-> exists k, Z.of_nat i + 1 = k * n).
Proof. exact nsteps_iff. Qed.
Print Assumptions C08_every_n_steps.

Theorem C08_final_step : forall sc i, (i < List.length (sc_steps sc))%nat ->
  nth_error (schedule_action_end_of_simulation sc) i = Some (Nat.eqb i (List.length (sc_steps sc) - 1)).
Proof. exact final_step_iff. Qed.
Print Assumptions C08_final_step.

(* spread: first or last day of the step falls in a season month *)
Theorem C08_spread : forall sc s e i st,
  nth_error (sc_steps sc) i = Some st ->
  exists b, nth_error (schedule_spread sc s e) i = Some b /\
    (b = true <-> (s <= mo (s_start st) <= e \/ s <= mo (s_end st) <= e)).
Proof. exact spread_iff. Qed.
Print Assumptions C08_spread.

Theorem C08_frequency_names : forall sc n,
  schedule_from_string sc "" n = Ok (map (fun _ => false) (sc_steps sc)) /\
  schedule_from_string sc "final_step" n = Ok (schedule_action_end_of_simulation sc) /\
  schedule_from_string sc "year" n = Ok (schedule_action_end_of_year sc) /\
  schedule_from_string sc "yearly" n = Ok (schedule_action_end_of_year sc) /\
  schedule_from_string sc "month" n = Ok (schedule_action_monthly sc) /\
  schedule_from_string sc "monthly" n = Ok (schedule_action_monthly sc) /\
  schedule_from_string sc "every_step" n = Ok (schedule_action_nsteps sc 1) /\
  schedule_from_string sc "time_step" n = Ok (schedule_action_nsteps sc 1) /\
  (n > 0 -> schedule_from_string sc "every_n_steps" n = Ok (schedule_action_nsteps sc n)) /\
  (n <= 0 -> schedule_from_string sc "every_n_steps" n = Err InvalidArgument).
Proof. exact from_string_names. Qed.
Print Assumptions C08_frequency_names.

(* a frequency incompatible with the step length is rejected *)
Theorem C08_incompatible_rejected : forall sc n,
  let u := sc_unit sc in let k := Zpos (sc_n sc) in
  (forall f, f = "week"%string \/ f = "weekly"%string ->
     schedule_from_string sc f n =
       match u with
       | Day => if k =? 1 then Ok (schedule_action_nsteps sc 7)
                else if k =? 7 then Ok (schedule_action_nsteps sc 1)
                else Err InvalidArgument
       | Week => if k =? 1 then Ok (schedule_action_nsteps sc 1) else Err InvalidArgument
       | Month => Err InvalidArgument
       end) /\
  (forall f, f = "day"%string \/ f = "daily"%string ->
     schedule_from_string sc f n =
       match u with
       | Day => if k =? 1 then Ok (schedule_action_nsteps sc 1) else Err InvalidArgument
       | _ => Err InvalidArgument
       end).
Proof. exact from_string_week_day. Qed.
Print Assumptions C08_incompatible_rejected.

Theorem C08_unknown_frequency_rejected : forall sc f n, ~ In f known_frequencies ->
  schedule_from_string sc f n = Err InvalidArgument.
Proof. exact from_string_unknown. Qed.
Print Assumptions C08_unknown_frequency_rejected.

(* the k-th firing step maps to index k-1; firings = inputs to supply *)
Theorem C08_action_index : forall l i, (i < List.length l)%nat ->
  simulation_step_to_action_step l (Z.of_nat i) = Ok (count_true (firstn i l)) /\
  (nth_error l i = Some true -> count_true (firstn (S i) l) = count_true (firstn i l) + 1) /\
  get_number_of_scheduled_actions l = count_true l /\
  count_true (firstn i l) <= count_true l.
Proof. exact action_index. Qed.
Print Assumptions C08_action_index.

Theorem C08_action_index_out_of_range : forall l i, (i >= List.length l)%nat ->
  simulation_step_to_action_step l (Z.of_nat i) = Err OutOfRange.
Proof. exact action_index_out_of_range. Qed.
Print Assumptions C08_action_index_out_of_range.

Theorem C08_weather_index : forall sc size i, 0 < size -> (i < List.length (sc_steps sc))%nat ->
  exists l, schedule_weather sc size = Ok l /\ nth_error l i = Some (Z.of_nat i mod size).
Proof. exact weather_index. Qed.
Print Assumptions C08_weather_index.

Theorem C08_config_wiring : forall c s, create_schedules c = Ok s ->
  mk_scheduler (c_start c) (c_end c) (c_unit c) (c_num_units c) = Ok (sch_scheduler s) /\
  let sc := sch_scheduler s in
  sch_spread s = schedule_spread sc (c_season_start c) (c_season_end c) /\
  schedule_from_string sc (c_output_freq c) (c_output_n c) = Ok (sch_output s) /\
  (c_use_mortality c = true ->
     schedule_from_string sc (c_mortality_freq c) (c_mortality_n c) = Ok (sch_mortality s)) /\
  (c_use_lethal c = true -> sch_lethal s = schedule_action_yearly sc (c_lethal_month c) 1) /\
  (c_use_survival c = true ->
     sch_survival s = schedule_action_yearly sc (c_survival_month c) (c_survival_day c)) /\
  (c_use_spreadrates c = true ->
     schedule_from_string sc (c_spreadrate_freq c) (c_spreadrate_n c) = Ok (sch_spread_rate s)) /\
  (c_use_quarantine c = true ->
     schedule_from_string sc (c_quarantine_freq c) (c_quarantine_n c) = Ok (sch_quarantine s)) /\
  (c_weather_size c <> 0 -> schedule_weather sc (c_weather_size c) = Ok (sch_weather s)).
Proof. exact create_schedules_wiring. Qed.
Print Assumptions C08_config_wiring.

(* Non-vacuity: 2-week steps from 2019-12-04 contain a step straddling the year
   (2019-12-18 .. 2020-01-07) in which a 3 January action and the end-of-year
   action both fire. *)
Example C08_nonvacuous :
  exists sc, mk_scheduler (mkdate 2019 12 4) (mkdate 2020 3 1) Week 2 = Ok sc
    /\ nth_error (sc_steps sc) 1 = Some (mkstep (mkdate 2019 12 18) (mkdate 2020 1 7))
    /\ nth_error (schedule_action_yearly sc 1 3) 1 = Some true
    /\ nth_error (schedule_action_end_of_year sc) 1 = Some true.
Proof. eexists. vm_compute. repeat split. Qed.
Print Assumptions C08_nonvacuous.
