(* Error kinds shared by all models.  The first four are the documented C++
   exception types; the last three exist only in the model. *)
Inductive err : Set :=
| InvalidArgument | LogicError | RuntimeError | OutOfRange
| UB_OutOfBounds | TapeMismatch | OutOfFuel.

Inductive result (A : Type) : Type :=
| Ok : A -> result A
| Err : err -> result A.
Arguments Ok {A} _.
Arguments Err {A} _.

Definition bind {A B} (r : result A) (f : A -> result B) : result B :=
  match r with Ok a => f a | Err e => Err e end.
Notation "'do' x <- r ; k" := (bind r (fun x => k))
  (at level 200, x name, r at level 100, k at level 200).
