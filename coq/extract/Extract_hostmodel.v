(* Extraction of the host model (cells, landscape actions, run_step) and of the
   calendar functions it needs.  ExtrOcamlBasic only; no Extract Constant. *)
From Coq Require Import Extraction ExtrOcamlBasic.
From Coq Require Import ZArith QArith List String.
From Pops Require Import Err Rounding DateDefs SchedDefs CellDefs LandDefs ModelDefs.
Extraction Language OCaml.
Extraction "popsmodel.ml"
  create_schedules schedule_action_date add_day
  get_number_of_scheduled_actions
  run_step run_step_rasters plan clear_after_step
  hosts valid_draw.
