(* Extraction of the executable raster model (C19) for the correspondence check.
   ExtrOcamlBasic only; Z, positive, nat, Q stay extracted datatypes.
   No Extract Constant. *)
From Coq Require Import Extraction ExtrOcamlBasic.
From Coq Require Import ZArith QArith List String.
From Pops Require Import Err RasterDefs.
Extraction Language OCaml.
Extraction "popsmodel.ml"
  (* string and ascii only because the shared ocaml/conv.ml mentions them *)
  String.string
  Qred
  rr_bin rs_bin sr_bin rs_asg rr_asg rpow rsqrt raster_eq raster_ne
  rr_asg_legacy rpow_legacy rsqrt_legacy raster_eq_legacy raster_ne_legacy
  from_rows filled rr_asg_allowed
  step run init live_internal ext_cells read get_obj.
