(* Extraction of the executable model for the correspondence checks.
   ExtrOcamlBasic only: bool, option, unit, list, prod, sumbool, sumor map to
   OCaml's own; Z, positive, N, nat, Q, string, ascii stay extracted datatypes.
   No Extract Constant. *)
From Coq Require Import Extraction ExtrOcamlBasic.
From Coq Require Import ZArith List String.
From Pops Require Import Err DateDefs SchedDefs.
Extraction Language OCaml.
Extraction "popsmodel.ml"
  (* calendar *)
  is_leap add_day subtract_day inc_days inc_week inc_month
  dgt dlt dle dge deq validb dn
  mk_scheduler num_steps get_step schedule_spread schedule_action_yearly
  schedule_action_end_of_year schedule_action_end_of_simulation
  schedule_action_nsteps schedule_action_monthly schedule_action_date
  schedule_weather simulation_step_to_action_step
  get_number_of_scheduled_actions schedule_from_string step_unit_from_string
  create_schedules.
