(* Extraction of the executable part of the kernels engine (C13): name tables,
   Direction values, neighbour offsets, uniform bounds, mix decision, factory
   choice, SwitchDispersalKernel dispatch / eligibility / supports_kernel,
   eligibility of the kernel classes and of the factory-built wrappers, the mix
   over real kernels.  The real-valued part (offsets, densities) is not executable and is
   tied by the translator and the metamorphic runs.  ExtrOcamlBasic only. *)
From Coq Require Import Extraction ExtrOcamlBasic.
From Coq Require Import ZArith List String.
From Pops Require Import Err KernelTypesDefs GeneratedKernelTables KernelGeomDefs KernelSwitchDefs.
Extraction Language OCaml.
Extraction "popsmodel.ml"
  kernel_type_from_string kernel_type_index direction_from_string direction_value
  neighbor_call neighbor_is_compass_b
  uniform_bounds uniform_args_model uniform_args_natural uniform_args_anthropogenic
  uniform_result covers_landscape_b
  mix_choice_of mix_draws_bernoulli mix_kernel_stream mix_bernoulli_stream
  factory_natural factory_anthropogenic
  switch_target switch_eligible switch_supports switch_default_stochasticity
  class_eligible class_supports elig_eval class_call_throws
  factory_natural_eligible factory_anthropogenic_eligible
  mix_switch_choice mix_switch_draws mix_factory_choice mix_factory_draws
  dynamic_kernel_anthro_built
  (* conv.ml expects the datatype nat to exist *)
  List.length.
