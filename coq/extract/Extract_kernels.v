(* Extraction of the executable part of the kernels engine (C13): name tables,
   Direction values, neighbour offsets, uniform bounds, mix decision, factory
   choice.  The real-valued part (offsets, densities) is not executable and is
   tied by the translator and the metamorphic runs.  ExtrOcamlBasic only. *)
From Coq Require Import Extraction ExtrOcamlBasic.
From Coq Require Import ZArith List String.
From Pops Require Import Err KernelTypesDefs GeneratedKernelTables KernelGeomDefs.
Extraction Language OCaml.
Extraction "popsmodel.ml"
  kernel_type_from_string kernel_type_index direction_from_string direction_value
  neighbor_call neighbor_is_compass_b
  uniform_bounds uniform_args_model uniform_args_natural uniform_args_anthropogenic
  uniform_result covers_landscape_b
  mix_choice_of mix_draws_bernoulli mix_kernel_stream mix_bernoulli_stream
  factory_natural factory_anthropogenic
  (* conv.ml expects the datatype nat to exist *)
  List.length.
