(* Extraction of the operation-level host model: run_hop (HostOpsDefs.v)
   dispatches every public pops::HostPool method to the CellDefs.v / LandDefs.v
   function the cell-level theorems are about.  ExtrOcamlBasic only; no
   Extract Constant. *)
From Coq Require Import Extraction ExtrOcamlBasic.
From Coq Require Import ZArith QArith List String.
From Pops Require Import Err Rounding CellDefs LandDefs HostOpsDefs.
Extraction Language OCaml.
Extraction "popsmodel.ml"
  (* string and ascii only because the shared ocaml/conv.ml mentions them *)
  String.string
  run_hop read_cell hosts valid_draw.
