(* Extraction of the executable metrics model (C18) for the correspondence check.
   ExtrOcamlBasic only; Z, positive, Q stay extracted datatypes. *)
From Coq Require Import Extraction ExtrOcamlBasic.
From Coq Require Import ZArith QArith List String.
From Pops Require Import Err MetricsDefs.
Extraction Language OCaml.
Extraction "popsmodel.ml"
  rget all_cells infection_boundary step_rate spread_run average_spread_rate
  quarantine_boundary closest_direction quarantine_action quarantine_run
  escape_probability info_at write_quarantine_escape dir_degrees
  sum_of_infected count_infected area_of_infected lround round_half_even
  (* ocaml/conv.ml refers to the extracted string type *)
  String.length.
