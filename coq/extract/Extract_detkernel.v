(* Extraction of the executable model of the deterministic kernel (C14).
   ExtrOcamlBasic only; Z, positive, Q stay extracted datatypes.  `err` and
   `String.length` are listed only because the shared ocaml/conv.ml refers to
   the extracted error and string types. *)
From Coq Require Import Extraction ExtrOcamlBasic.
From Coq Require Import ZArith QArith List String.
From Pops Require Import Err DetKernelDefs.
Extraction Language OCaml.
Extraction "popsmodel.ml"
  err String.length
  qcall qrun qinit qpick win_rows win_cols win_half mid dist2 cells lin cell_of upd
  Qsubr Qinv_n Qgtb Qminus Qplus Qmult Qle_bool Qeq_bool Qred Qcompare.
