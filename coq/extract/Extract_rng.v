(* Extraction of the provider model (C06).  ExtrOcamlBasic only. *)
From Coq Require Import Extraction ExtrOcamlBasic.
From Coq Require Import ZArith List String.
From Pops Require Import Err GeneratedRng RngDefs.
Extraction Language OCaml.
Extraction "popsmodel.ml" Nat.add make_provider stream_generator use_as_generator discard_on documented_streams.
