(* Extraction of the executable network model (C15) for the correspondence
   check.  ExtrOcamlBasic only; Z, positive, nat, Q, string stay extracted
   datatypes.  No Extract Constant. *)
From Coq Require Import Extraction ExtrOcamlBasic.
From Coq Require Import ZArith QArith Qreduction List String.
From Pops Require Import Err NetworkDefs.
Extraction Language OCaml.
Extraction "popsmodel.ml"
  Qred
  stream_has_columns load
  nodes_at has_node_at is_cell_eligible node_cell
  get_segment view_cell_by_cost view_front view_back v_cost seg_cost seg_cpc
  next_node_cands next_node
  walk walk_tr walk_all walk_fuel costs_positive min_cost
  teleport teleport_all
  kernel_of_movement walking_kernel teleporting_kernel kernel_call kernel_call_all.
