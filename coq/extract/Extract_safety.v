(* Extraction of the models behind the C20 probes.  ExtrOcamlBasic only. *)
From Coq Require Import Extraction ExtrOcamlBasic.
From Coq Require Import ZArith QArith List String.
From Pops Require Import Err Rounding DateDefs SchedDefs CellDefs LandDefs EnvDefs GeneratedRng RngDefs SafetyDefs.
Extraction Language OCaml.
Extraction "popsmodel.ml" Nat.add Z.mul
  model_type_from_string weather_type_from_string treatment_app_from_string set_arrival_behavior
  directions_from_list step_unit_from_string mk_scheduler schedule_from_string schedule_weather
  schedule_action_date add_day completely_remove make_resistant update_weather_from_distribution
  make_provider use_as_generator discard_on find_competency complete_lookup.
