(* Extraction of the weather-from-distribution model (C12).  ExtrOcamlBasic only. *)
From Coq Require Import Extraction ExtrOcamlBasic.
From Coq Require Import ZArith QArith List String.
From Pops Require Import Err Rounding EnvDefs.
Extraction Language OCaml.
Extraction "popsmodel.ml" Nat.add Z.mul String.eqb update_weather_from_distribution weather_draw.
