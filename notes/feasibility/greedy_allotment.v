From Coq Require Import QArith Lqa Lia List Arith.
Import ListNotations.
Local Open Scope Q_scope.

Section Greedy.
Variable m : nat.              (* number of window cells *)
Variable p : nat -> Q.         (* weights *)
Variable n : positive.         (* dispersers *)
Definition q : Q := 1 # n.
Lemma q_pos : 0 < q. Proof. unfold q. reflexivity. Qed.

Fixpoint sumQ (f : nat -> Q) (k : nat) : Q := match k with O => 0 | S k' => sumQ f k' + f k' end.
Hypothesis p_nonneg : forall j, (j < m)%nat -> 0 <= p j.
Hypothesis p_sum : sumQ p m == 1.

Definition cnt (s : list nat) (j : nat) : nat := count_occ Nat.eq_dec s j.
Definition r (s : list nat) (j : nat) : Q := p j - inject_Z (Z.of_nat (cnt s j)) * q.

(* s is kept in reverse order: head = latest pick *)
Inductive greedy : list nat -> Prop :=
| g_nil : greedy []
| g_cons i s : greedy s -> (i < m)%nat -> (forall j, (j < m)%nat -> r s j <= r s i) -> greedy (i :: s).

Lemma cnt_cons_eq i s : cnt (i :: s) i = S (cnt s i).
Proof. unfold cnt. simpl. destruct (Nat.eq_dec i i); congruence. Qed.
Lemma cnt_cons_neq i s j : i <> j -> cnt (i :: s) j = cnt s j.
Proof. unfold cnt. simpl. destruct (Nat.eq_dec i j); congruence. Qed.
Lemma r_cons_eq i s : r (i :: s) i == r s i - q.
Proof. unfold r. rewrite cnt_cons_eq. rewrite Nat2Z.inj_succ. unfold Z.succ. rewrite inject_Z_plus. ring. Qed.
Lemma r_cons_neq i s j : i <> j -> r (i :: s) j == r s j.
Proof. intros H. unfold r. rewrite cnt_cons_neq by exact H. reflexivity. Qed.
Lemma r_cons_le i s j : r (i :: s) j <= r s j.
Proof. destruct (Nat.eq_dec i j) as [->|H]. rewrite r_cons_eq. pose proof q_pos. lra. rewrite r_cons_neq by exact H. lra. Qed.

Lemma sumQ_ext f g k : (forall j, (j < k)%nat -> f j == g j) -> sumQ f k == sumQ g k.
Proof. induction k; simpl; intros H. reflexivity. rewrite IHk, (H k) by auto with arith. reflexivity. Qed.
Lemma sumQ_upd f g i k : (i < k)%nat -> (forall j, j <> i -> f j == g j) -> sumQ f k == sumQ g k + (f i - g i).
Proof. induction k; intros Hi H. lia. simpl. destruct (Nat.eq_dec i k) as [->|Hne].
  - rewrite (sumQ_ext f g k). ring. intros j Hj. apply H. lia.
  - rewrite IHk by (lia || auto). rewrite (H k) by auto. ring. Qed.
Lemma sum_r s : Forall (fun i => (i < m)%nat) s -> sumQ (r s) m == 1 - inject_Z (Z.of_nat (length s)) * q.
Proof. induction s as [|i s IH]; intros HF.
  - simpl length. simpl Z.of_nat. rewrite <- p_sum. setoid_replace (sumQ p m - inject_Z 0 * q) with (sumQ p m) by (unfold inject_Z; ring).
    apply sumQ_ext. intros j _. unfold r, cnt. simpl. unfold inject_Z. ring.
  - inversion HF; subst. rewrite (sumQ_upd (r (i :: s)) (r s) i m) by (auto; intros j Hj; apply r_cons_neq; auto).
    rewrite IH by auto. rewrite r_cons_eq. simpl length. rewrite Nat2Z.inj_succ. unfold Z.succ. rewrite inject_Z_plus. ring. Qed.
Lemma greedy_range s : greedy s -> Forall (fun i => (i < m)%nat) s.
Proof. induction 1; constructor; auto. Qed.

Lemma sumQ_le_max f k b : (forall j, (j < k)%nat -> f j <= b) -> sumQ f k <= inject_Z (Z.of_nat k) * b.
Proof. induction k; intros H; simpl sumQ. change (inject_Z (Z.of_nat 0)) with 0. lra.
  rewrite Nat2Z.inj_succ. unfold Z.succ. rewrite inject_Z_plus. specialize (IHk (fun j Hj => H j (Nat.lt_lt_succ_r _ _ Hj))). specialize (H k (Nat.lt_succ_diag_r k)). 
  setoid_replace ((inject_Z (Z.of_nat k) + inject_Z 1) * b) with (inject_Z (Z.of_nat k) * b + b) by ring. lra. Qed.

(* upper bound: never over-served by more than one *)
Lemma lenq (s : list nat) : (length s < Pos.to_nat n)%nat -> 0 < 1 - inject_Z (Z.of_nat (length s)) * q.
Proof. intros H. unfold q. assert (Z.of_nat (length s) < Z.pos n)%Z by lia.
  set (k := Z.of_nat (length s)) in *. clearbody k.
  assert (E: inject_Z k * (1 # n) == k # n). { unfold Qeq, Qmult, inject_Z; simpl. ring. }
  rewrite E. assert (k # n < 1). { unfold Qlt; simpl. lia. } lra. Qed.

Lemma upper s : greedy s -> (length s <= Pos.to_nat n)%nat -> forall j, (j < m)%nat -> - q <= r s j.
Proof. induction 1 as [|i s G IH Hi Hmax]; intros Hlen j Hj.
  - unfold r, cnt; simpl. pose proof (p_nonneg j Hj). pose proof q_pos. unfold inject_Z. simpl. lra.
  - simpl in Hlen. destruct (Nat.eq_dec i j) as [->|Hne].
    + rewrite r_cons_eq. 
      assert (Hs: 0 < sumQ (r s) m). { rewrite sum_r by (apply greedy_range; auto). apply lenq. lia. }
      pose proof (sumQ_le_max (r s) m (r s j) (fun k Hk => Hmax k Hk)) as Hle.
      assert (0 < r s j). { destruct (Qlt_le_dec 0 (r s j)); auto. exfalso.
        assert (inject_Z (Z.of_nat m) * r s j <= 0). { assert (0 <= inject_Z (Z.of_nat m)) by (unfold Qle, inject_Z; simpl; lia). nra. } lra. }
      lra.
    + rewrite r_cons_neq by auto. apply IH; auto. lia. Qed.

(* invariant J *)
Lemma J s : greedy s -> forall c d, (c < m)%nat -> (d < m)%nat -> (1 <= cnt s d)%nat -> r s c <= r s d + q.
Proof. induction 1 as [|i s G IH Hi Hmax]; intros c d Hc Hd Hk.
  - unfold cnt in Hk; simpl in Hk; lia.
  - destruct (Nat.eq_dec i d) as [->|Hne].
    + rewrite (r_cons_eq d s). pose proof (r_cons_le d s c). pose proof (Hmax c Hc). lra.
    + rewrite (r_cons_neq i s d) by auto. rewrite cnt_cons_neq in Hk by auto. pose proof (r_cons_le i s c). pose proof (IH c d Hc Hd Hk). lra. Qed.

Lemma sumQ_nonneg_pos f k c : (c < k)%nat -> (forall j, (j < k)%nat -> 0 <= f j) -> 0 < f c -> 0 < sumQ f k.
Proof. induction k; intros Hc Hn Hp. lia. simpl. destruct (Nat.eq_dec c k) as [->|Hne].
  - assert (0 <= sumQ f k). { clear IHk Hc Hp. induction k; simpl. lra. assert (0 <= sumQ f k) by (apply IHk; intros; apply Hn; lia). pose proof (Hn k). assert (0 <= f k) by (apply H0; lia). lra. } lra.
  - assert (0 < sumQ f k) by (apply IHk; auto; lia). pose proof (Hn k (Nat.lt_succ_diag_r k)). lra. Qed.

Theorem lower s : greedy s -> length s = Pos.to_nat n -> forall c, (c < m)%nat -> r s c <= q.
Proof. intros G Hlen c Hc. destruct (Qlt_le_dec q (r s c)) as [Hgt|]; auto. exfalso.
  assert (Hsum: sumQ (r s) m == 0). { rewrite sum_r by (apply greedy_range; auto). rewrite Hlen. unfold q. rewrite positive_nat_Z. assert (E: inject_Z (Z.pos n) * (1 # n) == 1). { unfold Qeq, Qmult, inject_Z; simpl. rewrite Pos.mul_1_r. lia. } rewrite E. ring. }
  assert (0 < sumQ (r s) m). { apply (sumQ_nonneg_pos (r s) m c Hc). 2: pose proof q_pos; lra.
    intros j Hj. destruct (Nat.eq_dec (cnt s j) 0) as [Hz|Hnz].
    - unfold r. rewrite Hz. pose proof (p_nonneg j Hj). unfold inject_Z; simpl. lra.
    - pose proof (J s G c j Hc Hj ltac:(lia)). lra. }
  lra. Qed.

Theorem mirror s : greedy s -> forall c d, (c < m)%nat -> (d < m)%nat -> p c == p d -> (cnt s c <= S (cnt s d))%nat.
Proof. intros G c d Hc Hd Hp. destruct (le_lt_dec (cnt s c) (S (cnt s d))) as [|Hlt]; auto. exfalso.
  assert (1 <= cnt s c)%nat by lia. pose proof (J s G d c Hd Hc H) as HJ. unfold r in HJ. rewrite Hp in HJ.
  assert (inject_Z (Z.of_nat (cnt s d)) + 2 <= inject_Z (Z.of_nat (cnt s c))). { rewrite <- (inject_Z_plus _ 2). rewrite <- Zle_Qle. lia. }
  pose proof q_pos. nra. Qed.
End Greedy.
Print Assumptions lower. Print Assumptions mirror. Print Assumptions upper.
