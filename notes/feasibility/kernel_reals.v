From Coq Require Import Reals Lra.
From Coquelicot Require Import Coquelicot.
Local Open Scope R_scope.
Section Logistic.
Variable s : R. Hypothesis Hs : 0 < s.
Definition lpdf x := exp (- x / s) / (s * (1 + exp (- x / s)) ^ 2).
Definition lcdf x := 1 / (1 + exp (- x / s)).
Definition licdf p := s * ln (p / (1 - p)).
Lemma lcdf_deriv x : is_derive lcdf x (lpdf x).
Proof. unfold lcdf, lpdf. auto_derive.
  - assert (0 < exp (- x * / s)) by apply exp_pos. lra.
  - unfold Rdiv. assert (0 < exp (- x * / s)) by apply exp_pos. field. split; lra. Qed.
Lemma lcdf_icdf p : 0 < p < 1 -> lcdf (licdf p) = p.
Proof. intros Hp. unfold lcdf, licdf. replace (- (s * ln (p / (1 - p))) / s) with (- ln (p / (1 - p))) by (field; lra).
  rewrite exp_Ropp, exp_ln. field. lra. apply Rdiv_lt_0_compat; lra. Qed.
End Logistic.
Lemma north : forall d ns, cos 0 = 1 /\ sin 0 = 0 /\ d * cos 0 / ns = d / ns. Proof. intros. rewrite cos_0, sin_0. repeat split; auto. unfold Rdiv; ring. Qed.
Lemma east : cos (PI/2) = 0 /\ sin (PI/2) = 1. Proof. split. apply cos_PI2. apply sin_PI2. Qed.
