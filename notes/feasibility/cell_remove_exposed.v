From Coq Require Import ZArith Lia List Bool ZifyBool.
Import ListNotations.
Local Open Scope Z_scope.

Definition sumZ (l : list Z) : Z := fold_right Z.add 0 l.
Record cell := { cS : Z; cE : list Z; cI : Z; cR : Z; cM : list Z; cD : Z; cTH : Z; cTE : Z }.
Definition hosts (c : cell) : Z := cS c + sumZ (cE c) + cI c + cR c.

(* a draw of n items without replacement from cohorts v *)
Fixpoint draw_ok (v d : list Z) : bool :=
  match v, d with
  | [], [] => true
  | x :: v', y :: d' => (0 <=? y) && (y <=? x) && draw_ok v' d'
  | _, _ => false
  end.
Definition valid_draw (v : list Z) (n : Z) (d : list Z) : bool :=
  draw_ok v d && (sumZ d =? Z.min n (sumZ v)).
Fixpoint subl (v d : list Z) : list Z :=
  match v, d with x :: v', y :: d' => (x - y) :: subl v' d' | _, _ => v end.

Lemma sum_subl v d : draw_ok v d = true -> sumZ (subl v d) = sumZ v - sumZ d.
Proof. revert d; induction v as [|x v IH]; intros [|y d]; simpl; try discriminate; try lia.
  intros H. apply andb_prop in H as [H1 H2]. rewrite (IH _ H2). lia. Qed.
Lemma nonneg_subl v d : draw_ok v d = true -> Forall (fun x => 0 <= x) (subl v d).
Proof. revert d; induction v as [|x v IH]; intros [|y d]; simpl; try discriminate; auto.
  intros H. apply andb_prop in H as [H1 H2]. apply andb_prop in H1 as [H0 H1]. constructor; [lia|auto]. Qed.

(* remove_exposed_at as in host_pool.hpp:681-698 *)
Definition remove_exposed (c : cell) (count : Z) (d : list Z) : option cell :=
  if count >? 0 then
    if valid_draw (cE c) count d then
      Some {| cS := cS c + count; cE := subl (cE c) d; cI := cI c; cR := cR c; cM := cM c; cD := cD c; cTH := cTH c; cTE := cTE c - count |}
    else None
  else Some {| cS := cS c + count; cE := cE c; cI := cI c; cR := cR c; cM := cM c; cD := cD c; cTH := cTH c; cTE := cTE c - count |}.

Definition Inv (c : cell) : Prop :=
  0 <= cS c /\ Forall (fun x => 0 <= x) (cE c) /\ 0 <= cI c /\ 0 <= cR c /\
  cTE c = sumZ (cE c) /\ cTH c = hosts c.

Lemma remove_exposed_conserves c count d c' :
  Inv c -> 0 <= count <= cTE c -> remove_exposed c count d = Some c' -> hosts c' = hosts c /\ Inv c'.
Proof. intros (HS & HE & HI & HR & HTE & HTH) Hc. unfold remove_exposed.
  destruct (count >? 0) eqn:Hpos.
  - destruct (valid_draw (cE c) count d) eqn:Hv; [|discriminate]. intros [= <-].
    unfold valid_draw in Hv. apply andb_prop in Hv as [Hd Hs]. apply Z.eqb_eq in Hs.
    unfold hosts in *. unfold Inv; cbn [cS cE cI cR cM cD cTH cTE]. rewrite (sum_subl _ _ Hd).
    repeat split; try lia. apply nonneg_subl; auto. unfold hosts; cbn [cS cE cI cR cM cD cTH cTE]. rewrite (sum_subl _ _ Hd). lia.
  - intros [= <-]. assert (count = 0) by lia. subst count. unfold Inv, hosts in *; cbn [cS cE cI cR cM cD cTH cTE]. repeat split; auto; try lia. Qed.

(* the witness behind C01's rationale: stale TE creates hosts *)
Example stale_TE_creates_hosts :
  let c := {| cS := 5; cE := [2;2]; cI := 0; cR := 0; cM := [0]; cD := 0; cTH := 9; cTE := 8 |} in
  exists d c', remove_exposed c 8 d = Some c' /\ hosts c' = 13 /\ hosts c = 9.
Proof. exists [2;2]. eexists. split. vm_compute. reflexivity. vm_compute. auto. Qed.
Print Assumptions remove_exposed_conserves.
Print Assumptions remove_exposed_conserves.
