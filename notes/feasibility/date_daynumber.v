From Coq Require Import ZArith Lia Bool.
Local Open Scope Z_scope.
Ltac Zify.zify_post_hook ::= Z.div_mod_to_equations.
Record date := mk { yr : Z; mo : Z; dy : Z }.
Definition is_leap (y:Z) : bool := (y mod 4 =? 0) && (negb (y mod 100 =? 0) || (y mod 400 =? 0)).
Definition dim (l:bool) (m:Z) : Z :=
  match m with 1=>31|2=>if l then 29 else 28|3=>31|4=>30|5=>31|6=>30|7=>31|8=>31|9=>30|10=>31|11=>30|12=>31|_=>0 end.
Definition cum (l:bool) (m:Z) : Z :=
  let f := if l then 1 else 0 in
  match m with 1=>0|2=>31|3=>59+f|4=>90+f|5=>120+f|6=>151+f|7=>181+f|8=>212+f|9=>243+f|10=>273+f|11=>304+f|12=>334+f|_=>0 end.
Definition dby (y:Z) : Z := 365*y + (y-1)/4 - (y-1)/100 + (y-1)/400.
Definition dn (d:date) : Z := dby (yr d) + cum (is_leap (yr d)) (mo d) + dy d.
Definition valid (d:date) : Prop := 1 <= mo d <= 12 /\ 1 <= dy d <= dim (is_leap (yr d)) (mo d).
Lemma dby_succ y : dby (y+1) - dby y = if is_leap y then 366 else 365.
Proof. unfold dby, is_leap. replace (y+1-1) with y by lia.
  destruct (y mod 4 =? 0) eqn:E4; destruct (y mod 100 =? 0) eqn:E100; destruct (y mod 400 =? 0) eqn:E400; cbn [andb orb negb]; lia. Qed.
Definition add_day (d:date) : date :=
  let d1 := dy d + 1 in
  if d1 >? dim (is_leap (yr d)) (mo d) then
    if mo d + 1 >? 12 then mk (yr d + 1) 1 1 else mk (yr d) (mo d + 1) 1
  else mk (yr d) (mo d) d1.
Lemma month_cases m : 1 <= m <= 12 -> m=1\/m=2\/m=3\/m=4\/m=5\/m=6\/m=7\/m=8\/m=9\/m=10\/m=11\/m=12. Proof. lia. Qed.
Lemma add_day_spec d : valid d -> valid (add_day d) /\ dn (add_day d) = dn d + 1.
Proof. destruct d as [y m dd]. unfold valid, add_day, dn; cbn [yr mo dy]. intros [Hm Hd].
  pose proof (dby_succ y) as Hy.
  destruct (month_cases m Hm) as [->|[->|[->|[->|[->|[->|[->|[->|[->|[->|[->| ->]]]]]]]]]]];
  destruct (is_leap y) eqn:L; cbn [dim cum] in *;
  match goal with |- context [ ?a >? ?b ] => destruct (Z.gtb_spec a b) end; cbn [yr mo dy dim cum Z.gtb Z.add Z.compare Pos.compare Pos.compare_cont Pos.add Pos.succ];
  try (rewrite L); cbn [dim cum]; try lia.
  all: destruct (is_leap (y+1)); cbn [dim cum]; lia.
Qed.
Print Assumptions add_day_spec.
