(* Model side of the detkernel engine (C14): runs the extracted Coq model of
   DeterministicDispersalKernel (coq/theories/DetKernelDefs.v) on the case file
   written by pylib/eng_detkernel.py.

     A rows cols den w_0 .. w_{m-1} nb (row col n len)*
         as harness/detkernel.cpp: dyadic window, exact run of qcall
     W2 maxd ew ns rows cols m w_0 .. w_{m-1} nb (row col n len)* ; r,c r,c ...
         a real kernel: maxd and the weights are the implementation's doubles as
         exact rationals (hexnum/hexden); prints the model's window size and
         squared distances, and the cells of the exact run.  Where the exact
         run has a near-tie (two candidates within 1e-12 that are not in
         identical positions) the implementation's cell (after the ';') is
         followed if it is one of the candidates, and the step is counted as
         skipped.
     N   no output (cases that have no model side)                           *)
open Conv
module P = Popsmodel

(* ---- big numbers in hexadecimal ---- *)
let hexval c = match c with
  | '0'..'9' -> Char.code c - 48
  | 'a'..'f' -> Char.code c - 87
  | 'A'..'F' -> Char.code c - 55
  | _ -> failwith "hex digit"

(* bits, least significant first *)
let bits_of_hex s =
  let acc = ref [] in
  String.iter (fun c ->
      let v = hexval c in
      (* most significant hex digit first: prepend its bits so that the final
         list is least significant first *)
      acc := ((v land 1) = 1) :: ((v land 2) = 2) :: ((v land 4) = 4) :: ((v land 8) = 8) :: !acc) s;
  !acc

let pos_of_hex s =
  (* strip leading zero bits (they are at the end of the lsb-first list) *)
  let bits = List.rev (bits_of_hex s) in
  let rec drop = function false :: t -> drop t | l -> l in
  match drop bits with
  | [] -> None
  | _ :: msb_rest ->
    (* msb_rest: remaining bits, most significant first; build from the top *)
    Some (List.fold_left (fun p b -> if b then P.XI p else P.XO p) P.XH msb_rest)

let z_of_hex s =
  let neg = String.length s > 0 && s.[0] = '-' in
  let body = if neg then String.sub s 1 (String.length s - 1) else s in
  match pos_of_hex body with
  | None -> P.Z0
  | Some p -> if neg then P.Zneg p else P.Zpos p

let q_of_string s =
  match String.index_opt s '/' with
  | None -> { P.qnum = z_of_hex s; P.qden = P.XH }
  | Some i ->
    let a = String.sub s 0 i and b = String.sub s (i + 1) (String.length s - i - 1) in
    (match pos_of_hex b with
     | None -> failwith "zero denominator"
     | Some d -> { P.qnum = z_of_hex a; P.qden = d })

let hex_of_pos p =
  (* bits, least significant first *)
  let rec go p = match p with
    | P.XH -> [true] | P.XO p' -> false :: go p' | P.XI p' -> true :: go p' in
  let rec take k l acc =
    if k = 0 then (List.rev acc, l)
    else (match l with [] -> (List.rev acc, []) | x :: r -> take (k - 1) r (x :: acc)) in
  let rec digits l = match l with
    | [] -> []
    | _ ->
      let (d, rest) = take 4 l [] in
      let v = List.fold_right (fun b acc -> 2 * acc + (if b then 1 else 0)) d 0 in
      v :: digits rest in
  let ds = List.rev (digits (go p)) in
  String.concat "" (List.map (fun v -> String.make 1 "0123456789abcdef".[v]) ds)

let hex_of_z = function
  | P.Z0 -> "0" | P.Zpos p -> hex_of_pos p | P.Zneg p -> "-" ^ hex_of_pos p

let string_of_q (q : P.q) = hex_of_z q.P.qnum ^ "/" ^ hex_of_pos q.P.qden

let q_of_ints a b = { P.qnum = z_of_int a; P.qden = pos_of_int b }

let eps = { P.qnum = z_of_int 1; P.qden = pos_of_int 1_000_000_000_000 }

let cell_str (c : P.z * P.z) = Printf.sprintf "%d,%d" (int_of_z (fst c)) (int_of_z (snd c))

(* batches: (row, col, n, len) list from position pos *)
let read_batches t pos =
  let nb = int_of_string t.(pos) in
  let l = ref [] in
  for b = 0 to nb - 1 do
    let j = pos + 1 + 4 * b in
    l := (int_of_string t.(j), int_of_string t.(j + 1), int_of_string t.(j + 2), int_of_string t.(j + 3)) :: !l
  done;
  (List.rev !l, pos + 1 + 4 * nb)

(* exact run, no tie handling *)
let run_exact (w : P.q P.window) batches =
  let st = ref (P.qinit w) in
  let out = ref [] in
  List.iter (fun (row, col, n, len) ->
      for _ = 1 to len do
        let (c, st') = P.qcall w (z_of_int row) (z_of_int col) (z_of_int n) !st in
        st := st'; out := cell_str c :: !out
      done) batches;
  List.rev !out

(* run that follows the implementation through near-ties *)
let run_following (w : P.q P.window) batches (impl : string array) =
  let m = List.length w.P.w_prob in
  let st = ref (P.qinit w) in
  let counts = Array.make (max m 1) 0 in
  let out = ref [] in
  let step = ref 0 and skipped = ref 0 in
  let parr = Array.of_list w.P.w_prob in
  List.iter (fun (row, col, n, len) ->
      for _ = 1 to len do
        let zr = z_of_int row and zc = z_of_int col in
        let reset = not (int_of_z !st.P.ks_prow = row && int_of_z !st.P.ks_pcol = col) in
        if reset then Array.fill counts 0 (Array.length counts) 0;
        let work = if reset then w.P.w_prob else !st.P.ks_work in
        let prop = if reset then P.qinv_n (z_of_int n) else !st.P.ks_prop in
        let warr = Array.of_list work in
        let forced = ref None in
        (match P.qpick w work with
         | Some kn when m > 0 ->
           let k = int_of_nat kn in
           let top = warr.(k) in
           let near j = P.qle_bool (P.qminus top warr.(j)) eps in
           let same j = P.qeq_bool parr.(j) parr.(k) && counts.(j) = counts.(k) in
           let tie = ref false in
           for j = 0 to m - 1 do
             if j <> k && near j && not (same j) then tie := true
           done;
           if !tie then begin
             incr skipped;
             if !step < Array.length impl then begin
               (* which index is the implementation's cell? *)
               for j = 0 to m - 1 do
                 if !forced = None && near j
                    && cell_str (P.cell_of w zr zc (nat_of_int j)) = impl.(!step) then forced := Some j
               done
             end
           end
         | _ -> ());
        (match !forced with
         | Some j ->
           counts.(j) <- counts.(j) + 1;
           st := { P.ks_prow = zr; P.ks_pcol = zc; P.ks_prop = prop;
                   P.ks_work = P.upd (nat_of_int j) (fun x -> P.qsubr x prop) work };
           out := cell_str (P.cell_of w zr zc (nat_of_int j)) :: !out
         | None ->
           (match P.qpick w work with
            | Some kn -> let k = int_of_nat kn in if k < Array.length counts then counts.(k) <- counts.(k) + 1
            | None -> ());
           let (c, st') = P.qcall w zr zc (z_of_int n) !st in
           st := st'; out := cell_str c :: !out);
        incr step
      done) batches;
  (List.rev !out, !skipped, !step)

let run_case k line =
  let t = Array.of_list (split_ws line) in
  match t.(0) with
  | "N" -> ()
  | "A" ->
    let rows = int_of_string t.(1) and cols = int_of_string t.(2) and den = int_of_string t.(3) in
    let m = rows * cols in
    let ws = List.init m (fun i -> q_of_ints (int_of_string t.(4 + i)) den) in
    let w = { P.w_rows = z_of_int rows; P.w_cols = z_of_int cols; P.w_prob = ws } in
    let (batches, _) = read_batches t (4 + m) in
    Printf.printf "%d cells %s\n" k (String.concat " " (run_exact w batches))
  | "W2" ->
    let maxd = q_of_string t.(1) and ew = q_of_string t.(2) and ns = q_of_string t.(3) in
    let rows = int_of_string t.(4) and cols = int_of_string t.(5) in
    let m = int_of_string t.(6) in
    let ws = List.init m (fun i -> q_of_string t.(7 + i)) in
    let (batches, pos) = read_batches t (7 + m) in
    let impl = if pos < Array.length t && t.(pos) = ";"
      then Array.sub t (pos + 1) (Array.length t - pos - 1) else [||] in
    let mr = P.win_rows maxd ew ns and mc = P.win_cols maxd ew ns in
    Printf.printf "%d dims %d %d\n" k (int_of_z mr) (int_of_z mc);
    let nr = int_of_z mr and nc = int_of_z mc in
    if nr > 0 && nc > 0 && nr * nc <= 2000 then begin
      let cs = P.cells mr mc in
      Printf.printf "%d d2 %s\n" k
        (String.concat " " (List.map (fun (i, j) -> string_of_q (P.qred (P.dist2 mr mc ew ns i j))) cs))
    end else Printf.printf "%d d2 -\n" k;
    let w = { P.w_rows = z_of_int rows; P.w_cols = z_of_int cols; P.w_prob = ws } in
    let (cells, skipped, steps) = run_following w batches impl in
    Printf.printf "%d cells %s\n" k (String.concat " " cells);
    Printf.printf "%d skipped %d %d\n" k skipped steps
  | _ -> failwith ("unknown case kind " ^ t.(0))

let main file =
  let ic = open_in file in
  iter_lines ic run_case;
  close_in ic

let () = main Sys.argv.(1)
