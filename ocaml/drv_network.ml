(* Model side of the network engine (C15): same line protocol as
   harness/network.cpp.  The text of a network is tokenised here (this mirrors
   std::getline / std::stoi / std::stod on the character set the generator
   uses and is NOT part of the Coq model); everything after the tokens -
   conversion to cells, merging, clipping, indexing, walking - is the
   extracted model. *)
open Conv
module P = Popsmodel

(* ---- numbers ---- *)
let rec pow10 k = if k = 0 then 1 else 10 * pow10 (k - 1)

let q_of_ints num den = { P.qnum = z_of_int num; P.qden = pos_of_int den }

let is_digit c = c >= '0' && c <= '9'

(* longest prefix [+-]?digits[.digits] | [+-]?.digits, as strtod reads it on
   the generator's character set (no exponents, hex, inf, nan) *)
let parse_decimal (s : string) : P.q P.result =
  let n = String.length s in
  let i = ref 0 in
  let neg = ref false in
  if !i < n && (s.[!i] = '-' || s.[!i] = '+') then begin neg := s.[!i] = '-'; incr i end;
  let ip = ref 0 and nd = ref 0 in
  while !i < n && is_digit s.[!i] do
    ip := !ip * 10 + (Char.code s.[!i] - 48); incr nd; incr i done;
  let fp = ref 0 and fd = ref 0 in
  if !i < n && s.[!i] = '.' then begin
    let j = ref (!i + 1) in
    while !j < n && is_digit s.[!j] do
      fp := !fp * 10 + (Char.code s.[!j] - 48); incr fd; incr j done;
    if !nd > 0 || !fd > 0 then i := !j
  end;
  if !nd = 0 && !fd = 0 then P.Err P.InvalidArgument
  else begin
    let den = pow10 !fd in
    let num = !ip * den + !fp in
    P.Ok (q_of_ints (if !neg then - num else num) den)
  end

(* std::stoi *)
let parse_int (s : string) : P.z P.result =
  let n = String.length s in
  let i = ref 0 in
  let neg = ref false in
  if !i < n && (s.[!i] = '-' || s.[!i] = '+') then begin neg := s.[!i] = '-'; incr i end;
  let v = ref 0 and nd = ref 0 and big = ref false in
  while !i < n && is_digit s.[!i] do
    if !v > 100000000000 then big := true
    else v := !v * 10 + (Char.code s.[!i] - 48);
    incr nd; incr i done;
  if !nd = 0 then P.Err P.InvalidArgument
  else begin
    let x = if !neg then - !v else !v in
    if !big || x > 2147483647 || x < -2147483648 then P.Err P.OutOfRange
    else P.Ok (z_of_int x)
  end

let qred q = P.qred q
let sq (q : P.q) =
  let r = qred q in
  let n = int_of_z r.P.qnum and d = int_of_pos r.P.qden in
  if d = 1 then string_of_int n else Printf.sprintf "%d/%d" n d

let scell ((r, c) : P.cell) = Printf.sprintf "%d,%d" (int_of_z r) (int_of_z c)
let cell_of r c : P.cell = (z_of_int r, z_of_int c)

(* ---- tokenising (mirrors std::getline with a delimiter) ---- *)
let getline_split (d : char) (s : string) : string list =
  if s = "" then []
  else begin
    let parts = String.split_on_char d s in
    match List.rev parts with
    | "" :: rest -> List.rev rest
    | _ -> parts
  end

let label_of = function
  | "node_1" -> P.L_node1 | "probability" -> P.L_probability | "cost" -> P.L_cost
  | _ -> P.L_other

let rec pairs = function
  | x :: y :: t -> (x, y) :: pairs t
  | _ -> []

let point_of (x, y) : (P.q * P.q) P.result =
  match parse_decimal x with
  | P.Err e -> P.Err e
  | P.Ok qx -> (match parse_decimal y with P.Err e -> P.Err e | P.Ok qy -> P.Ok (qx, qy))

let unused_q : P.q P.result = P.Err P.InvalidArgument

let record_of (hc : bool) (hp : bool) (line : string) : P.rawrec =
  let fields = Array.of_list (getline_split ',' line) in
  let f j = if j < Array.length fields then fields.(j) else "" in
  let j = ref 2 in
  let prob = if hp then begin let p = parse_decimal (f !j) in incr j; p end else unused_q in
  let cost = if hc then begin let c = parse_decimal (f !j) in incr j; c end else unused_q in
  let geom = f !j in
  { P.rr_n1 = parse_int (f 0); rr_n2 = parse_int (f 1); rr_prob = prob; rr_cost = cost;
    rr_pts = List.map point_of (pairs (getline_split ';' geom)) }

(* ---- printing results ---- *)
let sres (f : 'a -> string) = function
  | P.Ok v -> f v
  | P.Err e -> "err:" ^ err_name e

let set_line (items : string list) =
  "set " ^ String.concat " | " (List.sort_uniq compare items)

let rec nat_list = function [] -> [] | i :: t -> nat_of_int i :: nat_list t

let nonpos_fuel = 3000

let run_case k line =
  let t = Array.of_list (split_ws line) in
  if Array.length t < 9 || t.(0) <> "NET" then Printf.printf "%d load bad_case\n" k
  else begin
    let qd j = match parse_decimal t.(j) with P.Ok q -> q | P.Err _ -> failwith "number" in
    let g = { P.g_north = qd 1; g_south = qd 2; g_east = qd 3; g_west = qd 4;
              g_ew = qd 5; g_ns = qd 6 } in
    let allow_empty = t.(7) = "1" in
    let lines = if t.(8) = "~" then [] else String.split_on_char '|' t.(8) in
    let first_labels = match lines with
      | [] -> []
      | l :: _ -> List.map label_of (getline_split ',' l) in
    let hc, hp = match P.stream_has_columns first_labels with
      | P.Ok ((hc, hp), _) -> hc, hp
      | P.Err _ -> false, false in
    let recs = List.map (record_of hc hp) lines in
    match P.load g first_labels recs allow_empty with
    | P.Err e -> Printf.printf "%d load err:%s\n" k (err_name e)
    | P.Ok net ->
      Printf.printf "%d load ok\n" k;
      Printf.printf "%d nodes%s\n" k
        (String.concat "" (List.concat_map (fun (c, ns) ->
             List.map (fun n -> Printf.sprintf " %d@%s" (int_of_z n) (scell c)) ns)
             net.P.nw_nodes));
      Printf.printf "%d adj%s\n" k
        (String.concat "" (List.map (fun (n, (ps, ms)) ->
             Printf.sprintf " %d=%s>%s" (int_of_z n)
               (String.concat ";" (List.map sq ps))
               (String.concat "." (List.map (fun m -> string_of_int (int_of_z m)) ms)))
             net.P.nw_adj));
      Printf.printf "%d segs%s\n" k
        (String.concat "" (List.map (fun ((a, b), s) ->
             Printf.sprintf " %d-%d=%s@%s@%s" (int_of_z a) (int_of_z b)
               (String.concat ";" (List.map scell s.P.sg_cells))
               (sq (P.seg_cost s)) (sq s.P.sg_prob))
             net.P.nw_segs));
      let positive = P.costs_positive net in
      let fuel d = if positive then P.walk_fuel net d else nat_of_int nonpos_fuel in
      for i = 0 to Array.length t - 10 do
        let f = Array.of_list (String.split_on_char ':' t.(9 + i)) in
        let fi j = int_of_string f.(j) in
        let fq j = match parse_decimal f.(j) with P.Ok q -> q | P.Err _ -> failwith "number" in
        let cells_set (l : P.cell P.result list) =
          set_line (List.map (sres (fun c -> "cell " ^ scell c)) l) in
        let out = try (match f.(0) with
          | "W" ->
            let d = fq 3 and jump = fi 4 <> 0 and start = cell_of (fi 1) (fi 2) in
            let all = P.walk_all net (fuel d) start d jump in
            let s = cells_set all in
            (* a single outcome: the tape-driven function must agree (index 0 is a
               valid pick wherever one is consumed) *)
            (match all with
             | [one] ->
               let zeros = List.init 4096 (fun _ -> nat_of_int 0) in
               if P.walk net (fuel d) start d jump zeros = one then s else s ^ " MODEL_INCONSISTENT"
             | _ -> s)
          | "T" ->
            cells_set (P.teleport_all net (cell_of (fi 1) (fi 2)) (z_of_int (fi 3)))
          | "K" ->
            let d = fq 4 in
            let kern = P.kernel_of_movement (coq_string_of f.(3)) d d in
            cells_set (P.kernel_call_all net kern (fuel d) d (cell_of (fi 1) (fi 2)))
          | "D" ->
            let d = fq 4 in
            let kern = if f.(3) = "t" then P.teleporting_kernel
              else P.walking_kernel d d (f.(3) = "j") in
            cells_set (P.kernel_call_all net kern (fuel d) d (cell_of (fi 1) (fi 2)))
          | "R" -> "random"
          | "S" ->
            sres (fun v ->
                Printf.sprintf "view %s front %s back %s cost %s"
                  (String.concat ";" (List.map scell v.P.v_cells))
                  (sres scell (P.view_front v)) (sres scell (P.view_back v)) (sq (P.v_cost v)))
              (P.get_segment net (z_of_int (fi 1)) (z_of_int (fi 2)))
          | "C" ->
            (match P.get_segment net (z_of_int (fi 1)) (z_of_int (fi 2)) with
             | P.Err e -> "err:" ^ err_name e
             | P.Ok v -> sres (fun c -> "cell " ^ scell c) (P.view_cell_by_cost v (fq 3)))
          | "X" ->
            let ignore = if f.(2) = "-" then []
              else List.map (fun s -> z_of_int (int_of_string s)) (String.split_on_char '.' f.(2)) in
            (match P.next_node_cands net (z_of_int (fi 1)) ignore with
             | P.Err e -> set_line ["err:" ^ err_name e]
             | P.Ok l -> set_line (List.map (fun n -> "node " ^ string_of_int (int_of_z n)) l))
          | "E" ->
            let c = cell_of (fi 1) (fi 2) in
            Printf.sprintf "eligible %s%s" (if P.is_cell_eligible net c then "1" else "0")
              (if P.has_node_at net c then "1" else "0")
          | _ -> "unknown_query")
          with Stack_overflow | Out_of_memory -> "set MODEL_OVERFLOW" in
        Printf.printf "%d q%d %s\n" k i out
      done
  end

let main file =
  let ic = open_in file in
  iter_lines ic run_case;
  close_in ic

let () = main Sys.argv.(1)
