(* Model side of the rng engine (C06): same line protocol as harness/rng.cpp. *)
open Conv
module P = Popsmodel

let rec string_of_coq = function
  | P.EmptyString -> ""
  | P.String (P.Ascii (b0, b1, b2, b3, b4, b5, b6, b7), r) ->
    let bit b i = if b then 1 lsl i else 0 in
    let n = bit b0 0 + bit b1 1 + bit b2 2 + bit b3 3 + bit b4 4 + bit b5 5 + bit b6 6 + bit b7 7 in
    String.make 1 (Char.chr n) ^ string_of_coq r

let run_case k line =
  let t = Array.of_list (split_ws line) in
  let named =
    if t.(1) = "named" && Array.length t > 2 && t.(2) <> "-" then
      List.map (fun kv -> match String.split_on_char '=' kv with
          | [a; b] -> (coq_string_of a, z_of_int (int_of_string b)) | _ -> failwith "kv")
        (String.split_on_char ',' t.(2))
    else [] in
  let multiple = t.(1) <> "single" in
  let seed = if t.(1) = "named" then 7 else int_of_string t.(2) in
  match P.make_provider multiple (z_of_int seed) named with
  | P.Err e -> Printf.printf "%d err:%s\n" k (err_name e)
  | P.Ok p ->
    let streams = List.map (fun a ->
        match P.stream_generator p a with
        | Some (id, s) -> Printf.sprintf " %s:%s:%d" (string_of_coq a) (string_of_coq id) (int_of_z s)
        | None -> " " ^ string_of_coq a ^ ":none") P.documented_streams in
    let r = function P.Ok _ -> "ok" | P.Err e -> "err:" ^ err_name e in
    Printf.printf "%d streams%s | call %s | discard %s\n" k (String.concat "" streams)
      (r (P.use_as_generator p)) (r (P.discard_on p))

let () = let ic = open_in Sys.argv.(1) in iter_lines ic run_case; close_in ic
