(* Model side of the C20 probes: for each probe of harness/safety.cpp that has a
   Coq model prints "ok" or "err:<kind>", otherwise "unmodelled". *)
open Conv
module P = Popsmodel

let res = function P.Ok _ -> "ok" | P.Err e -> "err:" ^ err_name e
let unq s = if s = "<empty>" then "" else String.map (fun c -> if c = '~' then ' ' else c) s
let zeros n = List.init n (fun _ -> z_of_int 0)
let q n d = { P.qnum = z_of_int n; P.qden = pos_of_int d }
let q_of_decimal s =
  let neg = String.length s > 0 && s.[0] = '-' in
  let s' = if neg then String.sub s 1 (String.length s - 1) else s in
  let ip, fp = match String.index_opt s' '.' with
    | Some i -> String.sub s' 0 i, String.sub s' (i + 1) (String.length s' - i - 1)
    | None -> s', "" in
  let den = int_of_float (10.0 ** float_of_int (String.length fp)) in
  let num = int_of_string (ip ^ fp) in
  q (if neg then - num else num) den
let date y m d = { P.yr = z_of_int y; P.mo = z_of_int m; P.dy = z_of_int d }
let month_sched () = P.mk_scheduler (date 2020 1 1) (date 2020 12 31) P.Month (z_of_int 1)
let fixture = { P.cS = z_of_int 10; cE = zeros 2; cI = z_of_int 2; cTE = z_of_int 0; cR = z_of_int 0;
                cM = [z_of_int 2; z_of_int 0]; cD = z_of_int 0; cTH = z_of_int 12 }
let unit_of s = match P.step_unit_from_string (coq_string_of s) with P.Ok u -> Some u | P.Err _ -> None

let run k line =
  let t = Array.of_list (split_ws line) in
  let a i = if i < Array.length t then t.(i) else "" in
  let i j = int_of_string (a j) in
  let out = match t.(0) with
    | "model_type" -> res (P.model_type_from_string (coq_string_of (unq (a 1))))
    | "model_type_cstr" -> res (P.model_type_from_string (coq_string_of (if a 1 = "<null>" then "" else unq (a 1))))
    | "weather_type" -> res (P.weather_type_from_string (coq_string_of (unq (a 1))))
    | "treatment_app" -> res (P.treatment_app_from_string (coq_string_of (unq (a 1))))
    | "arrival_behavior" -> res (P.set_arrival_behavior (coq_string_of (unq (a 1))))
    | "step_unit" -> res (P.step_unit_from_string (coq_string_of (unq (a 1))))
    | "quarantine_directions" ->
      let s = unq (a 1) in
      let l = if s = "" then [] else List.map coq_string_of (String.split_on_char ',' s) in
      res (P.directions_from_list l)
    | "frequency" ->
      (match month_sched () with
       | P.Ok sc -> res (P.schedule_from_string sc (coq_string_of (unq (a 1))) (z_of_int 1))
       | P.Err e -> "err:" ^ err_name e)
    | "scheduler" ->
      (match unit_of (a 7) with
       | None -> "err:invalid_argument"
       | Some u -> res (P.mk_scheduler (date (i 1) (i 2) (i 3)) (date (i 4) (i 5) (i 6)) u (z_of_int (i 8))))
    | "schedule_weather" ->
      (match month_sched () with P.Ok sc -> res (P.schedule_weather sc (z_of_int (i 1))) | P.Err e -> "err:" ^ err_name e)
    | "treatment_date" ->
      (match month_sched () with
       | P.Err e -> "err:" ^ err_name e
       | P.Ok sc ->
         let d0 = date (i 1) (i 2) (i 3) in
         (match P.schedule_action_date sc d0 with
          | P.Err e -> "err:" ^ err_name e
          | P.Ok _ ->
            if i 4 = 0 then "ok" else begin
              let e = ref d0 in for _ = 1 to i 4 do e := P.add_day !e done;
              res (P.schedule_action_date sc !e) end))
    | "remove_hosts_exposed_length" ->
      res (P.completely_remove fixture (z_of_int 1) (zeros (i 1)) (z_of_int 1) (zeros 2))
    | "remove_hosts_mortality_length" ->
      res (P.completely_remove fixture (z_of_int 1) (zeros 2) (z_of_int 1) (zeros (i 1)))
    | "remove_hosts_mortality_too_high" ->
      res (P.completely_remove fixture (z_of_int 1) (zeros 2) (z_of_int 1) [z_of_int 5; z_of_int 0])
    | "make_resistant_length" ->
      let inf = if Array.length t > 3 then i 3 else 1 in
      res (P.make_resistant fixture (z_of_int 1) (zeros (i 1)) (z_of_int inf) (zeros (i 2)))
    | "make_resistant_too_many" ->
      res (P.make_resistant fixture (z_of_int 100) (zeros 2) (z_of_int 0) (zeros 2))
    | "weather_mean_range" ->
      let means = [q 1 2; q 1 2; q_of_decimal (a 1); q 1 2] in
      let draws = List.init 4 (fun _ -> (q 1 2, q 1 2)) in
      res (P.update_weather_from_distribution (z_of_int 2) (z_of_int 2) (z_of_int 2) (z_of_int 2) means draws)
    | "weather_shape" ->
      let means = List.init 4 (fun _ -> q 1 2) in
      let draws = List.init 4 (fun _ -> (q 1 2, q 1 2)) in
      res (P.update_weather_from_distribution (z_of_int 2) (z_of_int 2) (z_of_int (i 1)) (z_of_int (i 2)) means draws)
    | "named_seeds" ->
      let named = List.map (fun kv -> match String.split_on_char '=' kv with
          | [x; y] -> (coq_string_of x, z_of_int (int_of_string y)) | _ -> failwith "kv")
          (String.split_on_char ',' (a 1)) in
      res (P.make_provider true (z_of_int 0) named)
    | "provider_as_generator" ->
      (match P.make_provider true (z_of_int 7) [] with
       | P.Ok p -> res (if a 1 = "discard" then P.discard_on p else P.use_as_generator p)
       | P.Err e -> "err:" ^ err_name e)
    | "competency_width" ->
      res (P.find_competency [([true], q 1 2)] [true; true] (if a 1 = "second" then nat_of_int 1 else nat_of_int 0) (q 0 1))
    | "competency_complete_missing" ->
      res (P.complete_lookup [([false], q 0 1); ([false], q 1 2)] [true] None)
    | _ -> "unmodelled" in
  Printf.printf "%d %s\n" k out

let () = let ic = open_in Sys.argv.(1) in iter_lines ic run; close_in ic
