(* Conversions between OCaml values and the extracted Coq datatypes. *)
module P = Popsmodel

let rec pos_of_int n =
  if n <= 1 then P.XH
  else if n land 1 = 0 then P.XO (pos_of_int (n lsr 1))
  else P.XI (pos_of_int (n lsr 1))
let z_of_int n =
  if n = 0 then P.Z0 else if n > 0 then P.Zpos (pos_of_int n) else P.Zneg (pos_of_int (-n))
let rec int_of_pos = function
  | P.XH -> 1 | P.XO p -> 2 * int_of_pos p | P.XI p -> 2 * int_of_pos p + 1
let int_of_z = function
  | P.Z0 -> 0 | P.Zpos p -> int_of_pos p | P.Zneg p -> - (int_of_pos p)
let rec int_of_nat = function P.O -> 0 | P.S n -> 1 + int_of_nat n
let rec nat_of_int n = if n <= 0 then P.O else P.S (nat_of_int (n - 1))

let ascii_of_char c =
  let n = Char.code c in
  let b i = (n lsr i) land 1 = 1 in
  P.Ascii (b 0, b 1, b 2, b 3, b 4, b 5, b 6, b 7)
let coq_string_of s =
  let r = ref P.EmptyString in
  for i = String.length s - 1 downto 0 do r := P.String (ascii_of_char s.[i], !r) done;
  !r

let err_name = function
  | P.InvalidArgument -> "invalid_argument" | P.LogicError -> "logic_error"
  | P.RuntimeError -> "runtime_error" | P.OutOfRange -> "out_of_range"
  | P.UB_OutOfBounds -> "UB_out_of_bounds" | P.TapeMismatch -> "tape_mismatch"
  | P.OutOfFuel -> "out_of_fuel"

let bits l = String.concat "" (List.map (fun b -> if b then "1" else "0") l)
let ints l = String.concat "," (List.map (fun z -> string_of_int (int_of_z z)) l)

let split_ws s = List.filter (fun t -> t <> "") (String.split_on_char ' ' s)

let iter_lines ic f =
  let n = ref 0 in
  (try
     while true do
       let l = input_line ic in
       if l <> "" && l.[0] <> '#' then begin f !n l; incr n end
     done
   with End_of_file -> ())
