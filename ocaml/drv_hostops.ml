(* Model side of the operation-level host-pool tie: replays the case file of
   harness/hostops.cpp on the extracted Coq functions (run_hop of
   HostOpsDefs.v, i.e. the CellDefs.v / LandDefs.v functions the cell-level
   theorems are about), feeding every operation the random outcomes the
   implementation logged for it, and prints the same canonical text.
   usage: popsdriver <cases> <impl output>
   Model errors are printed with the name of the exception class the C++ throws;
   UB_* errors (the C++ would have undefined behaviour) as UB_out_of_bounds. *)
open Conv
module P = Popsmodel

(* ---- numbers ---- *)
let z_mul_pow2 z b =
  let rec go z b = if b <= 0 then z else go (P.Z.mul z (P.Zpos (P.XO P.XH))) (b - 1) in go z b
let parse_q (s : string) : P.q =
  let num_s, den_s = match String.index_opt s '/' with
    | Some i -> String.sub s 0 i, String.sub s (i + 1) (String.length s - i - 1)
    | None -> s, "1" in
  let parse_pow t = (* "a*2^b" | "2^b" | "a" -> (a, b) *)
    match String.index_opt t '^' with
    | None -> (int_of_string t, 0)
    | Some i ->
      let b = int_of_string (String.sub t (i + 1) (String.length t - i - 1)) in
      let left = String.sub t 0 (i - 1) in  (* drops the trailing '2' *)
      let a = if left = "" then 1
        else int_of_string (String.sub left 0 (String.length left - 1)) in (* drops '*' *)
      (a, b) in
  let (na, nb) = parse_pow num_s and (da, db) = parse_pow den_s in
  let num = z_mul_pow2 (z_of_int na) nb in
  let den = match z_mul_pow2 (z_of_int da) db with P.Zpos p -> p | _ -> P.XH in
  { P.qnum = num; P.qden = den }

let ints_of s = if s = "" || s = "-" then [] else List.map int_of_string (String.split_on_char ',' s)
let zs_of s = List.map z_of_int (ints_of s)
let zi = int_of_z
let zs s = z_of_int (int_of_string s)

(* ---- case parsing ---- *)
type case = { kv : (string * string list) list; ops : string list list }
let read_cases file =
  let ic = open_in file in
  let cases = ref [] and cur = ref None in
  (try while true do
       let l = input_line ic in
       if l <> "" && l.[0] <> '#' then begin
         match split_ws l with
         | "ops" :: _ -> cur := Some { kv = []; ops = [] }
         | "endops" :: _ ->
           (match !cur with Some c -> cases := { c with ops = List.rev c.ops } :: !cases | None -> ());
           cur := None
         | "op" :: rest ->
           (match !cur with Some c -> cur := Some { c with ops = rest :: c.ops } | None -> ())
         | k :: rest ->
           (match !cur with Some c -> cur := Some { c with kv = (k, rest) :: c.kv } | None -> ())
         | [] -> ()
       end
     done with End_of_file -> ());
  close_in ic; List.rev !cases

(* tape lines of the implementation output: (case, operation) -> event strings *)
let read_tapes file =
  let tbl = Hashtbl.create 1000 in
  (try
     let ic = open_in file in
     (try while true do
          let l = input_line ic in
          match split_ws l with
          | k :: j :: "tape" :: evs -> Hashtbl.replace tbl (int_of_string k, int_of_string j) evs
          | _ -> ()
        done with End_of_file -> ());
     close_in ic
   with Sys_error _ -> ());
  tbl

let parse_event (s : string) : P.event =
  match String.split_on_char ':' s with
  | ["draw"; l] -> P.EvDraw (zs_of l)
  | ["draw"] -> P.EvDraw []
  | ["establish"; t; p; r] -> P.EvEstablish (parse_q t, parse_q p, r = "1")
  | ["generate"; r; c; l; n] -> P.EvGenerate (zs r, zs c, parse_q l, zs n)
  | _ -> failwith ("bad event " ^ s)

(* ---- printing ---- *)
let cell_text (c : P.cell) =
  Printf.sprintf "%d|%s|%d|%d|%d|%s|%d|%d" (zi c.P.cS) (ints c.P.cE) (zi c.P.cI) (zi c.P.cTE)
    (zi c.P.cR) (ints c.P.cM) (zi c.P.cD) (zi c.P.cTH)
let state_text (w : P.world) =
  match w.P.w_hosts with
  | [hp] ->
    String.concat " " (List.map cell_text hp.P.hp_cells) ^ " ; suit"
    ^ String.concat "" (List.map (fun (r, c) -> Printf.sprintf " %d,%d" (zi r) (zi c)) hp.P.hp_suitable)
  | _ -> "?"

let err_text = function
  | P.UB_OutOfBounds -> "UB_out_of_bounds"
  | e -> err_name e

let ret_text = function
  | P.RNone -> "-"
  | P.RInt z -> string_of_int (zi z)
  | P.RBool b -> if b then "true" else "false"
  | P.RRead r ->
    Printf.sprintf "read:%d:%d:%d:%d:%d:%d:E=%s:M=%s" (zi r.P.ro_infected) (zi r.P.ro_susceptible)
      (zi r.P.ro_exposed) (zi r.P.ro_computed_exposed) (zi r.P.ro_resistant) (zi r.P.ro_total_hosts)
      (ints r.P.ro_exposed_groups) (ints r.P.ro_mortality_groups)

let parse_op (t : string list) : P.hop =
  match t with
  | ["disperser_to"; r; c] -> P.HDisperserTo (zs r, zs c)
  | ["add_disperser_at"; r; c] -> P.HAddDisperserAt (zs r, zs c)
  | ["dispersers_from"; r; c] -> P.HDispersersFrom (zs r, zs c)
  | ["pests_from"; r; c; n] -> P.HPestsFrom (zs r, zs c, zs n)
  | ["pests_to"; r; c; n] -> P.HPestsTo (zs r, zs c, zs n)
  | ["move_hosts_from_to"; a; b; c; d; n] -> P.HMoveHosts (zs a, zs b, zs c, zs d, zs n)
  | ["completely_remove_hosts_at"; r; c; s; e; i; m] ->
    P.HCompletelyRemove (zs r, zs c, zs s, zs_of e, zs i, zs_of m)
  | ["remove_infected_at"; r; c; n] -> P.HRemoveInfected (zs r, zs c, zs n)
  | ["remove_all_infected_at"; r; c] -> P.HRemoveAllInfected (zs r, zs c)
  | ["remove_infection_by_ratio_at"; r; c; q] -> P.HRemoveByRatio (zs r, zs c, parse_q q)
  | ["remove_exposed_at"; r; c; n] -> P.HRemoveExposed (zs r, zs c, zs n)
  | ["make_resistant_at"; r; c; s; e; i; m] ->
    P.HMakeResistant (zs r, zs c, zs s, zs_of e, zs i, zs_of m)
  | ["remove_resistance_at"; r; c] -> P.HRemoveResistance (zs r, zs c)
  | ["apply_mortality_at"; r; c; rate; lag] -> P.HApplyMortality (zs r, zs c, parse_q rate, zs lag)
  | ["apply_mortality_at_pht"; r; c] -> P.HApplyMortalityTable (zs r, zs c)
  | ["step_forward_mortality"] -> P.HStepForwardMortality
  | ["step_forward"; s] -> P.HStepForward (zs s)
  | ["reset_total_host"; r; c] -> P.HResetTotal (zs r, zs c)
  | ["read"; r; c] -> P.HRead (zs r, zs c)
  | ["is_outside"; r; c] -> P.HIsOutside (zs r, zs c)
  | ["suitability_at"; r; c] -> P.HSuitability (zs r, zs c)
  | _ -> failwith ("bad operation " ^ String.concat " " t)

let run_case k (cs : case) tapes =
  let kv key = List.assoc key cs.kv in
  let t key i = List.nth (kv key) i in
  let ti key i = int_of_string (t key i) in
  let mt = match t "pool" 0 with "SI" -> P.SI | "SEI" -> P.SEI | _ -> failwith "model type" in
  let rows = ti "pool" 2 and cols = ti "pool" 3 in
  let ncell = rows * cols in
  let rec take n l = if n <= 0 then [] else match l with [] -> failwith "too few values" | x :: r -> x :: take (n - 1) r in
  let opt key f = match kv key with "-" :: _ | [] -> None | l -> Some (f l) in
  let pht = opt "pht" (fun l -> ((parse_q (List.nth l 0), parse_q (List.nth l 1)), zs (List.nth l 2))) in
  let hc = { P.h_mt = mt; h_latency = z_of_int (ti "pool" 1); h_disp_stoch = (t "pool" 6 = "1");
             h_rr = parse_q (t "pool" 7); h_est_stoch = (t "pool" 4 = "1"); h_est_prob = parse_q (t "pool" 5);
             h_pht = pht } in
  let weather = opt "weather" (fun l -> List.map parse_q (take ncell l)) in
  let q0 = parse_q "0" in
  let g = { P.g_rows = z_of_int rows; g_cols = z_of_int cols; g_hosts = [hc]; g_arrival_land = false;
            g_est_stoch = hc.P.h_est_stoch; g_est_prob = hc.P.h_est_prob; g_competency = None;
            g_weather = (weather <> None); g_soil_pct = q0; g_soil_gen_stoch = false;
            g_soil_est_stoch = false; g_soil_est_prob = q0; g_overpop_pct = q0; g_leaving_pct = q0;
            g_lethal_temp = q0 } in
  let parse_cell s =
    let p = Array.of_list (String.split_on_char '|' s) in
    let f i = if i < Array.length p then p.(i) else "" in
    { P.cS = zs (f 0); cE = zs_of (f 1); cI = zs (f 2); cTE = zs (f 3); cR = zs (f 4);
      cM = zs_of (f 5); cD = zs (f 6); cTH = zs (f 7) } in
  let cells = List.map parse_cell (take ncell (kv "cells")) in
  let suit = List.map (fun s -> match ints_of s with [r; c] -> (z_of_int r, z_of_int c) | _ -> failwith "rc")
      (try kv "suitable" with Not_found -> []) in
  let w0 = { P.w_hosts = [ { P.hp_cells = cells; hp_suitable = suit } ];
             w_disp = []; w_estab = []; w_outside = []; w_soil = None;
             w_weather = weather;
             w_totpop = opt "totpop" (fun l -> List.map zs (take ncell l));
             w_other = opt "other" (fun l -> List.map zs (take ncell l));
             w_temp = None; w_last_index = z_of_int 0 } in
  Printf.printf "%d init %s\n" k (state_text w0);
  let w = ref w0 in
  (try
     List.iteri (fun j op ->
         let tape = match Hashtbl.find_opt tapes (k, j) with
           | Some evs -> List.map parse_event evs | None -> [] in
         match P.run_hop g (parse_op op) !w tape with
         | P.Ok ((r, w'), rest) ->
           if rest <> [] then begin
             Printf.printf "%d %d err tape_leftover(%d)\n" k j (List.length rest); raise Exit end;
           Printf.printf "%d %d st %s | %s\n" k j (ret_text r) (state_text w');
           w := w'
         | P.Err e -> Printf.printf "%d %d err %s\n" k j (err_text e); raise Exit) cs.ops
   with Exit -> ())

let () =
  let cases = read_cases Sys.argv.(1) in
  let tapes = if Array.length Sys.argv > 2 then read_tapes Sys.argv.(2) else Hashtbl.create 1 in
  List.iteri (fun k c ->
      (try run_case k c tapes with
       | Failure msg -> Printf.printf "%d driver_failure %s\n" k msg
       | Not_found -> Printf.printf "%d driver_failure not_found\n" k)) cases
