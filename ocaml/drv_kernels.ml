(* Model side of the kernels engine (C13): same line protocol as
   harness/kernels.cpp for the exact cases N T D M U UF F SW SS KE FE MX; the
   impl-only cases (G R K B) print nothing.  For the cases over a LAND (rows cols
   ew ns edges) node_at is decided from the edge list of the case line: a cell
   has a network node iff it is an end point of an edge. *)
open Conv
module P = Popsmodel

let unhex h =
  if h = "-" then "" else
    String.init (String.length h / 2) (fun i ->
        Char.chr (int_of_string ("0x" ^ String.sub h (2 * i) 2)))

let dir_of = function
  | "N" -> P.DirN | "NE" -> P.DirNE | "E" -> P.DirE | "SE" -> P.DirSE | "S" -> P.DirS
  | "SW" -> P.DirSW | "W" -> P.DirW | "NW" -> P.DirNW | "NONE" -> P.DirNone
  | _ -> failwith "direction token"

let res f = function P.Ok v -> f v | P.Err e -> "err:" ^ err_name e
let zi = int_of_z
let class_name = function
  | P.CUniform -> "uniform" | P.CNeighbor -> "neighbor" | P.CNetwork -> "network"
  | P.CDeterministic -> "deterministic" | P.CRadial -> "radial"
let stream_name = function P.StreamNatural -> "natural" | P.StreamAnthropogenic -> "anthropogenic"

let ktype_of = function
  | "Cauchy" -> P.KCauchy | "Exponential" -> P.KExponential | "Uniform" -> P.KUniform
  | "DeterministicNeighbor" -> P.KDeterministicNeighbor | "PowerLaw" -> P.KPowerLaw
  | "HyperbolicSecant" -> P.KHyperbolicSecant | "Gamma" -> P.KGamma
  | "ExponentialPower" -> P.KExponentialPower | "Weibull" -> P.KWeibull | "Normal" -> P.KNormal
  | "LogNormal" -> P.KLogNormal | "Logistic" -> P.KLogistic | "Network" -> P.KNetwork | "None" -> P.KNone
  | _ -> failwith "kernel type token"

let cell_of s = match String.split_on_char ':' s with
  | [r; c] -> (int_of_string r, int_of_string c) | _ -> failwith "cell token"
(* node cells of the network: the end points of the edges *)
let nodes_of edges =
  if edges = "-" then [] else
    List.concat_map (fun e -> match String.split_on_char '-' e with
        | [a; b] -> [cell_of a; cell_of b] | _ -> failwith "edge token")
      (String.split_on_char ',' edges)
let b01 b = if b then 1 else 0
let flag_of = function "1" -> true | "0" -> false | "d" -> P.switch_default_stochasticity | _ -> failwith "flag token"
let choice_name = function P.MixNatural -> "natural" | P.MixAnthropogenic -> "anthropogenic"

let run_case k line =
  let t = Array.of_list (split_ws line) in
  let i j = int_of_string t.(j) in
  match t.(0) with
  | "N" ->
    Printf.printf "%d nb %s\n" k
      (res (fun (r, c) -> Printf.sprintf "%d %d" (zi r) (zi c))
         (P.neighbor_call (dir_of t.(1)) (z_of_int (i 2)) (z_of_int (i 3))))
  | "T" ->
    Printf.printf "%d kt %s\n" k
      (res (fun kt -> string_of_int (zi (P.kernel_type_index kt)))
         (P.kernel_type_from_string (coq_string_of (unhex t.(1)))))
  | "D" ->
    Printf.printf "%d dir %s\n" k
      (res (fun d -> string_of_int (zi (P.direction_value d)))
         (P.direction_from_string (coq_string_of (unhex t.(1)))))
  | "M" ->
    let use = i 1 = 1 and elig = i 2 = 1 and bern = i 5 = 1 in
    let ch = P.mix_choice_of use elig bern in
    let draws = if P.mix_draws_bernoulli use elig then 1 else 0 in
    (* calls made on the two fixed generators by the mix itself *)
    let on_ant = if P.mix_bernoulli_stream = P.StreamAnthropogenic then draws else 0 in
    let on_nat = draws - on_ant in
    Printf.printf "%d mix %s bdraws=%d/%d kstream=%s\n" k
      (match ch with P.MixNatural -> "natural" | P.MixAnthropogenic -> "anthropogenic")
      on_ant on_nat (stream_name (P.mix_kernel_stream ch))
  | "U" | "UF" ->
    let o = if t.(0) = "U" then 1 else 2 in
    let rows = z_of_int (i o) and cols = z_of_int (i (o + 1)) in
    let args =
      if t.(0) = "U" then P.uniform_args_model rows cols
      else if t.(1) = "nat" then P.uniform_args_natural rows cols
      else P.uniform_args_anthropogenic rows cols in
    let ((rl, rh), (cl, ch)) = P.uniform_bounds args in
    Printf.printf "%d uni %d %d %d %d\n" k (zi rl) (zi rh) (zi cl) (zi ch)
  | "F" ->
    let st = i 3 = 1 in
    Printf.printf "%d fac %s\n" k
      (res (fun kt -> class_name ((if t.(1) = "nat" then P.factory_natural else P.factory_anthropogenic) kt st))
         (P.kernel_type_from_string (coq_string_of (unhex t.(2)))))
  | "SS" ->
    let ty = ktype_of t.(1) in
    let cs c = b01 (P.class_supports c ty) in
    Printf.printf "%d sup switch=%d radial=%d deterministic=%d uniform=%d neighbor=%d network=%d\n" k
      (b01 (P.switch_supports ty)) (cs P.CRadial) (cs P.CDeterministic) (cs P.CUniform) (cs P.CNeighbor) (cs P.CNetwork)
  | "SW" ->
    (* SW type flag movement rows cols ew ns edges seed cells... *)
    let ty = ktype_of t.(1) and st = flag_of t.(2) and nodes = nodes_of t.(8) in
    for j = 10 to Array.length t - 1 do
      let node_at = List.mem (cell_of t.(j)) nodes in
      let cls = P.switch_target ty st in
      Printf.printf "%d sw%d elig=%d member=%s exc=%d\n" k (j - 10)
        (b01 (P.switch_eligible ty st node_at)) (class_name cls) (b01 (P.class_call_throws cls node_at))
    done
  | "KE" ->
    let nodes = nodes_of t.(6) in
    for j = 7 to Array.length t - 1 do
      let node_at = List.mem (cell_of t.(j)) nodes in
      let e c = b01 (P.elig_eval (P.class_eligible c) node_at) in
      Printf.printf "%d ke%d radial=%d deterministic=%d uniform=%d neighbor=%d network=%d\n" k (j - 7)
        (e P.CRadial) (e P.CDeterministic) (e P.CUniform) (e P.CNeighbor) (e P.CNetwork)
    done
  | "FE" ->
    (* FE which hex stochastic movement rows cols ew ns edges cells... *)
    let st = i 3 = 1 and nodes = nodes_of t.(9) and nat = t.(1) = "nat" in
    (match P.kernel_type_from_string (coq_string_of (unhex t.(2))) with
     | P.Err e -> Printf.printf "%d fe class=err:%s\n" k (err_name e)
     | P.Ok kt ->
       Printf.printf "%d fe class=%s\n" k (class_name ((if nat then P.factory_natural else P.factory_anthropogenic) kt st));
       for j = 10 to Array.length t - 1 do
         let node_at = List.mem (cell_of t.(j)) nodes in
         Printf.printf "%d fe%d elig=%d\n" k (j - 10)
           (b01 ((if nat then P.factory_natural_eligible else P.factory_anthropogenic_eligible) kt st node_at))
       done)
  | "MX" ->
    (* MX route use pk uk bern type flag natkind movement rows cols ew ns edges seed cells... *)
    let hand = t.(1) = "hand" and use = i 2 = 1 and bern = i 5 = 1 in
    let ty = ktype_of t.(6) and st = flag_of t.(7) and nodes = nodes_of t.(14) in
    for j = 16 to Array.length t - 1 do
      let node_at = List.mem (cell_of t.(j)) nodes in
      let elig = if hand then P.switch_eligible ty st node_at else P.factory_anthropogenic_eligible ty st node_at in
      let ch = (if hand then P.mix_switch_choice else P.mix_factory_choice) use ty st node_at bern in
      let draws = (if hand then P.mix_switch_draws else P.mix_factory_draws) use ty st node_at in
      let cls = if hand then P.switch_target ty st else P.factory_anthropogenic ty st in
      let exc = ch = P.MixAnthropogenic && P.class_call_throws cls node_at in
      (* create_dynamic_kernel may leave a disabled anthropogenic kernel out: nothing to ask then *)
      let elig_s = if (not hand) && not (P.dynamic_kernel_anthro_built use) then "-" else string_of_int (b01 elig) in
      Printf.printf "%d mx%d elig=%s choice=%s bdraws=%d exc=%d\n" k (j - 16) elig_s (choice_name ch) (b01 draws) (b01 exc)
    done
  | _ -> ()

let () = iter_lines (open_in Sys.argv.(1)) run_case
