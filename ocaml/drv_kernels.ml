(* Model side of the kernels engine (C13): same line protocol as
   harness/kernels.cpp for the exact cases N T D M U UF F; the impl-only
   cases (G R K B) print nothing. *)
open Conv
module P = Popsmodel

let unhex h =
  if h = "-" then "" else
    String.init (String.length h / 2) (fun i ->
        Char.chr (int_of_string ("0x" ^ String.sub h (2 * i) 2)))

let dir_of = function
  | "N" -> P.DirN | "NE" -> P.DirNE | "E" -> P.DirE | "SE" -> P.DirSE | "S" -> P.DirS
  | "SW" -> P.DirSW | "W" -> P.DirW | "NW" -> P.DirNW | "NONE" -> P.DirNone
  | _ -> failwith "direction token"

let res f = function P.Ok v -> f v | P.Err e -> "err:" ^ err_name e
let zi = int_of_z
let class_name = function
  | P.CUniform -> "uniform" | P.CNeighbor -> "neighbor" | P.CNetwork -> "network"
  | P.CDeterministic -> "deterministic" | P.CRadial -> "radial"
let stream_name = function P.StreamNatural -> "natural" | P.StreamAnthropogenic -> "anthropogenic"

let run_case k line =
  let t = Array.of_list (split_ws line) in
  let i j = int_of_string t.(j) in
  match t.(0) with
  | "N" ->
    Printf.printf "%d nb %s\n" k
      (res (fun (r, c) -> Printf.sprintf "%d %d" (zi r) (zi c))
         (P.neighbor_call (dir_of t.(1)) (z_of_int (i 2)) (z_of_int (i 3))))
  | "T" ->
    Printf.printf "%d kt %s\n" k
      (res (fun kt -> string_of_int (zi (P.kernel_type_index kt)))
         (P.kernel_type_from_string (coq_string_of (unhex t.(1)))))
  | "D" ->
    Printf.printf "%d dir %s\n" k
      (res (fun d -> string_of_int (zi (P.direction_value d)))
         (P.direction_from_string (coq_string_of (unhex t.(1)))))
  | "M" ->
    let use = i 1 = 1 and elig = i 2 = 1 and bern = i 5 = 1 in
    let ch = P.mix_choice_of use elig bern in
    let draws = if P.mix_draws_bernoulli use elig then 1 else 0 in
    (* calls made on the two fixed generators by the mix itself *)
    let on_ant = if P.mix_bernoulli_stream = P.StreamAnthropogenic then draws else 0 in
    let on_nat = draws - on_ant in
    Printf.printf "%d mix %s bdraws=%d/%d kstream=%s\n" k
      (match ch with P.MixNatural -> "natural" | P.MixAnthropogenic -> "anthropogenic")
      on_ant on_nat (stream_name (P.mix_kernel_stream ch))
  | "U" | "UF" ->
    let o = if t.(0) = "U" then 1 else 2 in
    let rows = z_of_int (i o) and cols = z_of_int (i (o + 1)) in
    let args =
      if t.(0) = "U" then P.uniform_args_model rows cols
      else if t.(1) = "nat" then P.uniform_args_natural rows cols
      else P.uniform_args_anthropogenic rows cols in
    let ((rl, rh), (cl, ch)) = P.uniform_bounds args in
    Printf.printf "%d uni %d %d %d %d\n" k (zi rl) (zi rh) (zi cl) (zi ch)
  | "F" ->
    let st = i 3 = 1 in
    Printf.printf "%d fac %s\n" k
      (res (fun kt -> class_name ((if t.(1) = "nat" then P.factory_natural else P.factory_anthropogenic) kt st))
         (P.kernel_type_from_string (coq_string_of (unhex t.(2)))))
  | _ -> ()

let () = iter_lines (open_in Sys.argv.(1)) run_case
