(* Model side of the metrics engine (C18): same line protocol as
   harness/metrics.cpp (see there for the case format). *)
open Conv
module P = Popsmodel

(* the double nearest to the rational (exact for dyadic values; one correctly
   rounded division otherwise, as the implementation's sum / size) *)
let float_of_q (q : P.q) =
  let rec gcd a b = if b = 0 then abs a else gcd b (a mod b) in
  let n = int_of_z q.P.qnum and d = int_of_pos q.P.qden in
  let g = max 1 (gcd n d) in
  float_of_int (n / g) /. float_of_int (d / g)

(* exact text of a double, as canon() of harness/metrics.cpp *)
let canon x =
  if Float.is_nan x then "nan"
  else if x = max_float then "max"
  else if x = 0.0 then "0"
  else begin
    let m, e = Float.frexp x in
    let mant = ref (int_of_float (Float.ldexp m 53)) and e = ref (e - 53) in
    while !mant mod 2 = 0 do mant := !mant / 2; incr e done;
    Printf.sprintf "%dp%d" !mant !e
  end

let canon_q q = canon (float_of_q q)
let canon_oq = function Some q -> canon_q q | None -> "nan"

let parse_ratio s : P.q =
  match String.index_opt s '/' with
  | None -> { P.qnum = z_of_int (int_of_string s); qden = P.XH }
  | Some p ->
    let n = int_of_string (String.sub s 0 p)
    and d = int_of_string (String.sub s (p + 1) (String.length s - p - 1)) in
    { P.qnum = z_of_int n; qden = pos_of_int d }

let parse_dirs s =
  if s = "-" then { P.en_n = true; en_s = true; en_e = true; en_w = true }
  else begin
    let l = String.split_on_char ',' s in
    { P.en_n = List.mem "N" l; en_s = List.mem "S" l; en_e = List.mem "E" l; en_w = List.mem "W" l }
  end

let rates_str (r : P.rates) =
  Printf.sprintf "%s %s %s %s" (canon_oq r.P.rt_n) (canon_oq r.P.rt_s) (canon_oq r.P.rt_e)
    (canon_oq r.P.rt_w)

(* (escaped, distance text, degrees) as escaped()/distance()/direction() report *)
let info_fields = function
  | P.QEscaped -> (1, "nan", int_of_z (P.dir_degrees P.DirNone))
  | P.QInside None -> (0, "max", int_of_z (P.dir_degrees P.DirNone))
  | P.QInside (Some (d, dr)) -> (0, canon (float_of_int (int_of_z d)), int_of_z (P.dir_degrees dr))

(* text of write_quarantine_escape from the model's rows (newline shown as |) *)
let csv_text nruns rows =
  let b = Buffer.create 256 in
  Buffer.add_string b "step,escape_probability";
  for i = 0 to nruns - 1 do Buffer.add_string b (Printf.sprintf ",dist%d,dir%d" i i) done;
  Buffer.add_char b '|';
  List.iter (fun ((step, prob), cells) ->
      Buffer.add_string b (string_of_int (int_of_z step));
      (match prob with
       | Some t -> let t = int_of_z t in Buffer.add_string b (Printf.sprintf ",%d.%d" (t / 10) (t mod 10))
       | None -> Buffer.add_string b ",-nan");
      List.iter (function
          | None -> Buffer.add_string b ",,"
          | Some (None, deg) ->
            Buffer.add_string b (Printf.sprintf ",%.1f,%d" max_float (int_of_z deg))
          | Some (Some d, deg) ->
            Buffer.add_string b (Printf.sprintf ",%d.0,%d" (int_of_z d) (int_of_z deg))) cells;
      Buffer.add_char b '|') rows;
  Buffer.contents b

let run_case k line =
  let t = Array.of_list (split_ws line) in
  if t.(0) = "M" then begin
    let pos = ref 1 in
    let tok () = let s = t.(!pos) in incr pos; s in
    let next () = int_of_string (tok ()) in
    let rows = next () in
    let cols = next () in
    let ew = parse_ratio (tok ()) in
    let ns = parse_ratio (tok ()) in
    let en = parse_dirs (tok ()) in
    let tt = next () in
    let nr = next () in
    let nsuit = next () in
    let suit = List.init nsuit (fun _ -> let i = next () in let j = next () in (z_of_int i, z_of_int j)) in
    let zr = z_of_int rows and zc = z_of_int cols in
    let read_raster () =
      let d = List.init (rows * cols) (fun _ -> z_of_int (next ())) in
      { P.r_rows = zr; r_cols = zc; r_data = d } in
    let areas = read_raster () in
    let runs = List.init nr (fun _ -> List.init (tt + 1) (fun _ -> read_raster ())) in
    (* spread rates *)
    let all_rates = List.mapi (fun r rasters ->
        let r0 = List.hd rasters and rs = List.tl rasters in
        let b0, steps = P.spread_run zr zc ew ns suit r0 rs in
        let pb s (b : P.bbox) =
          Printf.printf "%d bbox %d %d %d %d %d %d\n" k r s (int_of_z b.P.bn) (int_of_z b.P.bs)
            (int_of_z b.P.be) (int_of_z b.P.bw) in
        pb 0 b0;
        List.iteri (fun s (b, _) -> pb (s + 1) b) steps;
        List.iteri (fun s (_, rt) -> Printf.printf "%d rate %d %d %s\n" k r s (rates_str rt)) steps;
        List.map snd steps) runs in
    for s = 0 to tt - 1 do
      let at = List.map (fun l -> List.nth l s) all_rates in
      Printf.printf "%d avg %d %s\n" k s (rates_str (P.average_spread_rate at))
    done;
    (* quarantine *)
    let failed = ref false in
    let infos = List.mapi (fun r rasters ->
        match P.quarantine_run en ew ns areas suit (List.tl rasters) with
        | P.Err e -> Printf.printf "%d q %d err:%s\n" k r (err_name e); failed := true; []
        | P.Ok l ->
          List.iteri (fun s q ->
              let (esc, d, deg) = info_fields q in
              Printf.printf "%d q %d %d %d %s %d\n" k r s esc d deg) l;
          l) runs in
    if not !failed then begin
      for s = 0 to tt - 1 do
        let at = List.map (fun run -> P.info_at run (nat_of_int s)) infos in
        Printf.printf "%d prob %d %s\n" k s (canon_oq (P.escape_probability at));
        Printf.printf "%d dd %d%s\n" k s
          (String.concat "" (List.map (fun q ->
               let (_, d, deg) = info_fields q in Printf.sprintf " %s %d" d deg) at))
      done;
      Printf.printf "%d csv %s\n" k (csv_text nr (P.write_quarantine_escape infos (nat_of_int tt)))
    end;
    (* statistics *)
    List.iteri (fun r rasters ->
        List.iteri (fun s ra ->
            Printf.printf "%d sum %d %d %d\n" k r s (int_of_z (P.sum_of_infected (P.rget ra) suit));
            Printf.printf "%d area %d %d %s\n" k r s (canon_q (P.area_of_infected (P.rget ra) ew ns suit)))
          rasters) runs
  end

let main file =
  let ic = open_in file in
  iter_lines ic run_case;
  close_in ic

let () = main Sys.argv.(1)
