(* Model side of the raster engine (C19): same line protocol as
   harness/raster.cpp.  See pylib/eng_raster.py for the case format. *)
open Conv
module P = Popsmodel

let ty_of_tag = function "i" -> P.TInt | "d" -> P.TDbl | s -> failwith ("type " ^ s)
let tag_of_ty = function P.TInt -> "i" | P.TDbl -> "d"

let parse_num tag s =
  match tag with
  | "i" -> P.NI (z_of_int (int_of_string s))
  | _ ->
    (match String.index_opt s '/' with
     | None -> P.ND { P.qnum = z_of_int (int_of_string s); P.qden = P.XH }
     | Some i ->
       let n = int_of_string (String.sub s 0 i)
       and d = int_of_string (String.sub s (i + 1) (String.length s - i - 1)) in
       P.ND { P.qnum = z_of_int n; P.qden = pos_of_int d })

let num_str = function
  | P.NI z -> string_of_int (int_of_z z)
  | P.ND q ->
    let r = P.qred q in
    let n = int_of_z r.P.qnum and d = int_of_pos r.P.qden in
    if d = 1 then string_of_int n else Printf.sprintf "%d/%d" n d

let cells_str l = "[" ^ String.concat "," (List.map num_str l) ^ "]"
let raster_str (r : P.raster) =
  Printf.sprintf "%s:%dx%d:%s" (tag_of_ty r.P.rty) (int_of_z r.P.rrows) (int_of_z r.P.rcols)
    (cells_str r.P.rcells)

let op_of = function
  | "add" -> P.Add | "sub" -> P.Sub | "mul" -> P.Mul | "div" -> P.Div | s -> failwith ("op " ^ s)

(* token cursor *)
type cur = { t : string array; mutable p : int }
let next c = let s = c.t.(c.p) in c.p <- c.p + 1; s
let more c = c.p < Array.length c.t
let next_int c = int_of_string (next c)

let rec take n l = if n = 0 then [] else match l with [] -> [] | x :: r -> x :: take (n - 1) r
let rec drop n l = if n = 0 then l else match l with [] -> [] | _ :: r -> drop (n - 1) r
let rec chunks c l = if l = [] then [] else take c l :: chunks c (drop c l)

let parse_cells c tag n = List.init n (fun _ -> parse_num tag (next c))

(* <t> <rows> <cols> cells...; the storage mode decides which constructor of
   the model builds the operand *)
let parse_raster c mode =
  let tag = next c in
  let rows = next_int c in
  let cols = next_int c in
  let cells = parse_cells c tag (rows * cols) in
  if mode = "lst" && rows >= 1 && cols >= 1 && rows <= 4 && cols <= 4 then
    (match P.from_rows (ty_of_tag tag) (chunks cols cells) with
     | P.Ok r -> r
     | P.Err _ -> failwith "from_rows")
  else
    { P.rrows = z_of_int rows; P.rcols = z_of_int cols; P.rty = ty_of_tag tag; P.rcells = cells }

let parse_scalar c = let tag = next c in parse_num tag (next c)

let tail k mode a b =
  if mode = "pad" then begin
    Printf.printf "%d mem %s\n" k (cells_str a.P.rcells);
    (match b with Some b -> Printf.printf "%d memb %s\n" k (cells_str b.P.rcells) | None -> ())
  end;
  Printf.printf "%d pad ok live=0 memerr=none\n" k

(* ---- ownership sequences ---- *)
let merr_name = function
  | P.DoubleFree -> "double_free" | P.FreeOfExternal -> "free_of_caller_memory"
  | P.UseAfterFree -> "use_after_free" | P.NullDeref -> "null_deref"
  | P.IndexOutOfBounds -> "index_out_of_bounds" | P.BadShape -> "bad_shape"
  (* the case names a variable or array that is not there: the harness cannot
     even express the call *)
  | P.NoSuchObject | P.SlotOccupied | P.NoSuchArray -> "usage"

let rec index_of x l i = match l with [] -> -1 | y :: r -> if x = y then i else index_of x r (i + 1)

let state_str (st : P.state) =
  let exts = List.map int_of_nat st.P.exts in
  let names = ref [] in
  let label b =
    let e = index_of b exts 0 in
    if e >= 0 then Printf.sprintf "E%d" e
    else begin
      (if not (List.mem b !names) then names := !names @ [b]);
      Printf.sprintf "H%d" (index_of b !names 0)
    end in
  let slot = function
    | None -> "-"
    | Some (o : P.robj) ->
      let shape = Printf.sprintf "%dx%d:o%d" (int_of_z o.P.o_rows) (int_of_z o.P.o_cols)
          (if o.P.o_owns then 1 else 0) in
      (match o.P.o_data with
       | None -> shape ^ ":null:[]"
       | Some b ->
         let l = label (int_of_nat b) in
         let cs = match P.read st o with P.MOk cs -> cells_str cs | P.MErr e -> "[" ^ merr_name e ^ "]" in
         shape ^ ":" ^ l ^ ":" ^ cs) in
  let slots = String.concat " " (List.map slot st.P.slots) in
  let ext i _ =
    match P.ext_cells st (nat_of_int i) with
    | Some cs -> Printf.sprintf "E%d=%s" i (cells_str cs)
    | None -> Printf.sprintf "E%d=?" i in
  let es = String.concat "" (List.map (fun e -> " " ^ e) (List.mapi ext st.P.exts)) in
  Printf.sprintf "live=%d memerr=none | %s |%s" (int_of_nat (P.live_internal st)) slots es

let parse_op c tag =
  let name = next c in
  let v () = nat_of_int (next_int c) in
  let z () = z_of_int (next_int c) in
  let x () = parse_num tag (next c) in
  match name with
  | "default" -> let a = v () in P.ODefault a
  | "sized" -> let a = v () in let r = next_int c in let cc = next_int c in
    let cells = parse_cells c tag (r * cc) in P.OSized (a, z_of_int r, z_of_int cc, cells)
  | "fill" -> let a = v () in let r = z () in let cc = z () in let y = x () in P.OFillNew (a, r, cc, y)
  | "list" -> let a = v () in let r = next_int c in let cc = next_int c in
    let cells = parse_cells c tag (r * cc) in P.OList (a, chunks cc cells)
  | "like" -> let a = v () in let w = v () in let y = x () in P.OLike (a, w, y)
  | "ext" -> let n = next_int c in P.OExt (parse_cells c tag n)
  | "wrap" -> let a = v () in let e = v () in let r = z () in let cc = z () in P.OWrap (a, e, r, cc)
  | "copy" -> let a = v () in let w = v () in P.OCopy (a, w)
  | "move" -> let a = v () in let w = v () in P.OMove (a, w)
  | "cassign" -> let a = v () in let w = v () in P.OCopyAssign (a, w)
  | "massign" -> let a = v () in let w = v () in P.OMoveAssign (a, w)
  | "destroy" -> let a = v () in P.ODestroy a
  | "write" -> let a = v () in let i = z () in let j = z () in let y = x () in P.OWrite (a, i, j, y)
  | "extw" -> let e = v () in let kk = v () in let y = x () in P.OExtWrite (e, kk, y)
  | s -> failwith ("ownership op " ^ s)

let run_own k c =
  let tag = next c in
  let nslots = next_int c in
  let st = ref (P.init (nat_of_int nslots)) in
  let idx = ref 0 in
  let ok = ref true in
  while !ok && more c do
    let sep = next c in
    if sep <> ";" then failwith "expected ;";
    let op = parse_op c tag in
    (match P.step !st op with
     | P.MOk st' -> st := st'; Printf.printf "%d step %d ok %s\n" k !idx (state_str st')
     | P.MErr e -> Printf.printf "%d step %d err:%s\n" k !idx (merr_name e); ok := false);
    incr idx
  done;
  if !ok then begin
    (* the harness destroys the remaining objects in slot order *)
    List.iteri (fun i s ->
        match s with
        | None -> ()
        | Some _ ->
          (match P.step !st (P.ODestroy (nat_of_int i)) with
           | P.MOk st' -> st := st'
           | P.MErr e -> Printf.printf "%d cleanup err:%s\n" k (merr_name e))) !st.P.slots;
    Printf.printf "%d end live=%d memerr=none\n" k (int_of_nat (P.live_internal !st))
  end else
    Printf.printf "%d end aborted\n" k

let res_str = function P.Ok r -> raster_str r | P.Err e -> "err:" ^ err_name e
let b01 b = if b then "1" else "0"

let run_case k line =
  let c = { t = Array.of_list (split_ws line); p = 0 } in
  let kind = next c in
  if kind = "OWN" then run_own k c
  else begin
    let mode = next c in
    match kind with
    | "RR" ->
      let o = op_of (next c) in
      let a = parse_raster c mode in
      let b = parse_raster c mode in
      (match P.rr_bin o a b with
       | P.Ok ((r, a'), b') ->
         Printf.printf "%d res %s\n%d lhs %s\n%d rhs %s\n" k (raster_str r) k (raster_str a') k (raster_str b');
         tail k mode a' (Some b')
       | P.Err e ->
         Printf.printf "%d res err:%s\n%d lhs %s\n%d rhs %s\n" k (err_name e) k (raster_str a) k (raster_str b);
         tail k mode a (Some b))
    | "RS" | "SR" ->
      let o = op_of (next c) in
      let a, s =
        if kind = "RS" then (let a = parse_raster c mode in let s = parse_scalar c in (a, s))
        else (let s = parse_scalar c in let a = parse_raster c mode in (a, s)) in
      let r = if kind = "RS" then P.rs_bin o a s else P.sr_bin o s a in
      (match r with
       | P.Ok (r, a') ->
         Printf.printf "%d res %s\n%d arg %s\n" k (raster_str r) k (raster_str a'); tail k mode a' None
       | P.Err e -> Printf.printf "%d res err:%s\n%d arg %s\n" k (err_name e) k (raster_str a); tail k mode a None)
    | "CS" ->
      let o = op_of (next c) in
      let a = parse_raster c mode in
      let s = parse_scalar c in
      (match P.rs_asg o a s with
       | P.Ok a' -> Printf.printf "%d lhs %s\n" k (raster_str a'); tail k mode a' None
       | P.Err e -> Printf.printf "%d lhs err:%s\n" k (err_name e); tail k mode a None)
    | "CR" ->
      let o = op_of (next c) in
      let a = parse_raster c mode in
      let b = parse_raster c mode in
      (match P.rr_asg o a b with
       | P.Ok (a', b') ->
         Printf.printf "%d status ok\n%d lhs %s\n%d rhs %s\n" k k (raster_str a') k (raster_str b');
         tail k mode a' (Some b')
       | P.Err e ->
         Printf.printf "%d status err:%s\n%d lhs %s\n%d rhs %s\n" k (err_name e) k (raster_str a) k (raster_str b);
         tail k mode a (Some b))
    | "PW" | "SQ" ->
      let a = parse_raster c mode in
      let r = if kind = "PW" then P.rpow a (z_of_int (next_int c)) else P.rsqrt a in
      (match r with
       | P.Ok (r, a') ->
         Printf.printf "%d res %s\n%d arg %s\n" k (raster_str r) k (raster_str a'); tail k mode a' None
       | P.Err e -> Printf.printf "%d res err:%s\n%d arg %s\n" k (err_name e) k (raster_str a); tail k mode a None)
    | "EQ" ->
      let a = parse_raster c mode in
      let b = parse_raster c mode in
      let f = function P.Ok v -> b01 v | P.Err e -> "err:" ^ err_name e in
      Printf.printf "%d eq %s ne %s\n%d lhs %s\n%d rhs %s\n" k (f (P.raster_eq a b)) (f (P.raster_ne a b))
        k (raster_str a) k (raster_str b);
      tail k mode a (Some b)
    | _ -> failwith ("unknown case kind " ^ kind)
  end

let () =
  let ic = open_in Sys.argv.(1) in
  iter_lines ic run_case;
  close_in ic
