(* Model side of the host-model engine: replays the scenarios of
   harness/hostmodel.cpp on the extracted Coq model, feeding it the tape of
   random outcomes the implementation logged, and prints the state after each
   action in the same canonical text. usage: popsdriver <cases> <impl output> *)
open Conv
module P = Popsmodel

(* ---- numbers ---- *)
let rec pos_pow2 b = if b <= 0 then P.XH else P.XO (pos_pow2 (b - 1))
let z_mul_pow2 z b =
  let rec go z b = if b <= 0 then z else go (P.Z.mul z (P.Zpos (P.XO P.XH))) (b - 1) in go z b
let parse_q (s : string) : P.q =
  let num_s, den_s = match String.index_opt s '/' with
    | Some i -> String.sub s 0 i, String.sub s (i + 1) (String.length s - i - 1)
    | None -> s, "1" in
  let parse_pow t = (* "a*2^b" | "2^b" | "a" -> (a, b) *)
    match String.index_opt t '^' with
    | None -> (int_of_string t, 0)
    | Some i ->
      let b = int_of_string (String.sub t (i + 1) (String.length t - i - 1)) in
      let left = String.sub t 0 (i - 1) in  (* drops the trailing '2' *)
      let a = if left = "" then 1
        else int_of_string (String.sub left 0 (String.length left - 1)) in (* drops '*' *)
      (a, b) in
  let (na, nb) = parse_pow num_s and (da, db) = parse_pow den_s in
  let num = z_mul_pow2 (z_of_int na) nb in
  let den = match z_mul_pow2 (z_of_int da) db with P.Zpos p -> p | _ -> P.XH in
  { P.qnum = num; P.qden = den }

let ints_of s = if s = "" || s = "-" then [] else List.map int_of_string (String.split_on_char ',' s)
let zs_of s = List.map z_of_int (ints_of s)
let nth_tok l i = List.nth l i

(* ---- case parsing ---- *)
type case = { entry : string; kv : (string * string list) list; multi : string list list }
let multi_keys = ["pht"; "comprow"; "cells"; "suitable"; "totpop"; "wraster"; "temp"; "surv"; "move"; "treat"]
let read_cases file =
  let ic = open_in file in
  let cases = ref [] and cur = ref None in
  (try while true do
       let l = input_line ic in
       if l <> "" && l.[0] <> '#' then begin
         match split_ws l with
         | "case" :: e :: _ -> cur := Some { entry = e; kv = []; multi = [] }
         | "end" :: _ -> (match !cur with Some c -> cases := { c with multi = List.rev c.multi } :: !cases | None -> ()); cur := None
         | k :: rest ->
           (match !cur with
            | Some c -> if List.mem k multi_keys then cur := Some { c with multi = (k :: rest) :: c.multi }
              else cur := Some { c with kv = (k, rest) :: c.kv }
            | None -> ())
         | [] -> ()
       end
     done with End_of_file -> ());
  close_in ic; List.rev !cases

(* tape lines of the implementation output: (case, step) -> event strings *)
let read_tapes file =
  let tbl = Hashtbl.create 1000 in
  let ic = open_in file in
  (try while true do
       let l = input_line ic in
       match split_ws l with
       | k :: s :: "tape" :: evs when String.length s > 1 && s.[0] = 's' ->
         Hashtbl.replace tbl (int_of_string k, int_of_string (String.sub s 1 (String.length s - 1))) evs
       | _ -> ()
     done with End_of_file -> ());
  close_in ic; tbl

let parse_event (s : string) : P.event =
  (* the tag may carry the name of the stream the outcome was drawn from: tag@stream *)
  let fields = match String.split_on_char ':' s with
    | tag :: rest -> (match String.index_opt tag '@' with
        | Some i -> String.sub tag 0 i :: rest | None -> tag :: rest)
    | [] -> [] in
  match fields with
  | ["draw"; l] -> P.EvDraw (zs_of l)
  | ["draw"] -> P.EvDraw []
  | ["establish"; t; p; r] -> P.EvEstablish (parse_q t, parse_q p, r = "1")
  | ["soil_to"; t; p; r] -> P.EvSoilTo (parse_q t, parse_q p, r = "1")
  | ["generate"; r; c; l; n] -> P.EvGenerate (z_of_int (int_of_string r), z_of_int (int_of_string c), parse_q l, z_of_int (int_of_string n))
  | ["soil_from"; r; c; l; n] -> P.EvSoilFrom (z_of_int (int_of_string r), z_of_int (int_of_string c), parse_q l, z_of_int (int_of_string n))
  | ["kernel"; i; j; r; c] -> P.EvKernel (z_of_int (int_of_string i), z_of_int (int_of_string j), z_of_int (int_of_string r), z_of_int (int_of_string c))
  | ["okernel"; i; j; r; c] -> P.EvOKernel (z_of_int (int_of_string i), z_of_int (int_of_string j), z_of_int (int_of_string r), z_of_int (int_of_string c))
  | ["pick"; i] -> P.EvPick (z_of_int (int_of_string i))
  | ["weather"; i; j; v] -> P.EvWeather (z_of_int (int_of_string i), z_of_int (int_of_string j), parse_q v)
  | _ -> failwith ("bad event " ^ s)

(* ---- printing ---- *)
let zi = int_of_z
let cell_text (c : P.cell) =
  Printf.sprintf "%d|%s|%d|%d|%d|%s|%d|%d" (zi c.P.cS) (ints c.P.cE) (zi c.P.cI) (zi c.P.cTE)
    (zi c.P.cR) (ints c.P.cM) (zi c.P.cD) (zi c.P.cTH)
let world_text (w : P.world) use_soils =
  let b = Buffer.create 1024 in
  List.iteri (fun h (hp : P.hostpool) ->
      Buffer.add_string b (Printf.sprintf " | h%d:" h);
      List.iter (fun c -> Buffer.add_string b (" " ^ cell_text c)) hp.P.hp_cells;
      Buffer.add_string b " ; suit";
      List.iter (fun (r, c) -> Buffer.add_string b (Printf.sprintf " %d,%d" (zi r) (zi c))) hp.P.hp_suitable)
    w.P.w_hosts;
  Buffer.add_string b " | disp";
  List.iter (fun z -> Buffer.add_string b (" " ^ string_of_int (zi z))) w.P.w_disp;
  Buffer.add_string b " | estab";
  List.iter (fun z -> Buffer.add_string b (" " ^ string_of_int (zi z))) w.P.w_estab;
  Buffer.add_string b " | outside";
  List.iter (fun (r, c) -> Buffer.add_string b (Printf.sprintf " %d,%d" (zi r) (zi c))) w.P.w_outside;
  Buffer.add_string b " | soil";
  (match w.P.w_soil with
   | Some s when use_soils -> List.iter (fun cs -> Buffer.add_string b (" " ^ ints cs)) s
   | _ -> ());
  Buffer.contents b

let tag_name = function
  | P.ASoil -> "soil_next_step" | P.ALethal -> "lethal_temperature" | P.ASurvival -> "survival_rate"
  | P.AGenerate -> "generate" | P.ADisperse -> "spread" | P.AStepForward -> "step_forward"
  | P.AOverpop -> "overpopulation" | P.AMovement -> "movement" | P.ATreatments -> "treatments"
  | P.AMortality -> "mortality" | P.ASpreadRate -> "spread_rate" | P.AQuarantine -> "quarantine"

let run_case k (cs : case) tapes =
  let t key i = List.nth (List.assoc key cs.kv) i in
  let ti key i = int_of_string (t key i) in
  let tb key i = t key i = "1" in
  let rows = ti "grid" 0 and cols = ti "grid" 1 in
  let ncell = rows * cols in
  let date y m d = { P.yr = z_of_int y; P.mo = z_of_int m; P.dy = z_of_int d } in
  let unit_of = function "day" -> P.Day | "week" -> P.Week | "month" -> P.Month | _ -> failwith "unit" in
  let freq s = coq_string_of (if s = "-" then "" else s) in
  let sc = { P.c_start = date (ti "calendar" 0) (ti "calendar" 1) (ti "calendar" 2);
             c_end = date (ti "calendar" 3) (ti "calendar" 4) (ti "calendar" 5);
             c_unit = unit_of (t "calendar" 6); c_num_units = z_of_int (ti "calendar" 7);
             c_season_start = z_of_int (ti "season" 0); c_season_end = z_of_int (ti "season" 1);
             c_output_freq = coq_string_of ""; c_output_n = z_of_int 0;
             c_use_mortality = tb "mortality" 0; c_mortality_freq = freq (t "mortality" 1);
             c_mortality_n = z_of_int (ti "mortality" 2);
             c_use_lethal = tb "lethal" 0; c_lethal_month = z_of_int (ti "lethal" 1);
             c_use_survival = tb "survival" 0; c_survival_month = z_of_int (ti "survival" 1);
             c_survival_day = z_of_int (ti "survival" 2);
             c_use_spreadrates = tb "spreadrates" 0; c_spreadrate_freq = freq (t "spreadrates" 1);
             c_spreadrate_n = z_of_int (ti "spreadrates" 2);
             c_use_quarantine = tb "quarantine" 0; c_quarantine_freq = freq (t "quarantine" 1);
             c_quarantine_n = z_of_int (ti "quarantine" 2);
             c_weather_size = z_of_int 0 } in
  match P.create_schedules sc with
  | P.Err e -> Printf.printf "%d setup err %s\n" k (err_name e)
  | P.Ok sch ->
    let nhosts = ti "hosts" 0 in
    let mt = if t "mt" 0 = "SI" then P.SI else if t "mt" 0 = "SEI" then P.SEI else failwith "mt" in
    let phts = Hashtbl.create 4 in
    let comp = ref [] and cells = Hashtbl.create 4 and suit = Hashtbl.create 4 in
    let totpop = ref [] and weathers = ref [] and temps = ref [] and survs = ref [] in
    let moves = ref [] and treats = ref [] and setup_err = ref None in
    let qs l = List.map parse_q l in
    let rec take n l = if n <= 0 then [] else match l with [] -> [] | x :: r -> x :: take (n - 1) r in
    List.iter (fun l -> match l with
        | "pht" :: h :: s :: r :: lag :: _ -> Hashtbl.replace phts (int_of_string h) ((parse_q s, parse_q r), z_of_int (int_of_string lag))
        | "comprow" :: pres :: q :: _ -> comp := !comp @ [ (List.map (fun v -> v <> 0) (ints_of pres), parse_q q) ]
        | "cells" :: h :: rest ->
          let parse_cell s =
            let p = Array.of_list (String.split_on_char '|' s) in
            let g i = if i < Array.length p then p.(i) else "" in
            { P.cS = z_of_int (int_of_string (g 0)); cE = zs_of (g 1); cI = z_of_int (int_of_string (g 2));
              cTE = z_of_int (int_of_string (g 3)); cR = z_of_int (int_of_string (g 4)); cM = zs_of (g 5);
              cD = z_of_int (int_of_string (g 6)); cTH = z_of_int (int_of_string (g 7)) } in
          Hashtbl.replace cells (int_of_string h) (List.map parse_cell (take ncell rest))
        | "suitable" :: h :: rest ->
          Hashtbl.replace suit (int_of_string h)
            (List.map (fun s -> match ints_of s with [r; c] -> (z_of_int r, z_of_int c) | _ -> failwith "rc") rest)
        | "totpop" :: rest -> totpop := List.map (fun s -> z_of_int (int_of_string s)) (take ncell rest)
        | "wraster" :: rest -> weathers := !weathers @ [qs (take ncell rest)]
        | "temp" :: rest -> temps := !temps @ [qs (take ncell rest)]
        | "surv" :: rest -> survs := !survs @ [qs (take ncell rest)]
        | ["move"; a; b; c; d; e; s] ->
          moves := !moves @ [ (List.map (fun x -> z_of_int (int_of_string x)) [a; b; c; d; e], z_of_int (int_of_string s)) ]
        | "treat" :: pest :: y :: m :: d :: days :: app :: rest ->
          let sd = date (int_of_string y) (int_of_string m) (int_of_string d) in
          let ndays = int_of_string days in
          let scd = sch.P.sch_scheduler in
          (match P.schedule_action_date scd sd with
           | P.Err e -> if !setup_err = None then setup_err := Some e
           | P.Ok st ->
             let en =
               if ndays = 0 then P.Ok st
               else begin
                 let e = ref sd in for _ = 1 to ndays do e := P.add_day !e done;
                 P.schedule_action_date scd !e end in
             (match en with
              | P.Err e -> if !setup_err = None then setup_err := Some e
              | P.Ok en ->
                let app = (match app with "ratio" | "ratio_to_all" -> P.Ratio | _ -> P.AllInfectedInCell) in
                treats := !treats @ [ { P.t_pesticide = (ndays <> 0); t_start = st; t_end = en;
                                        t_map = qs (take ncell rest); t_app = app } ]))
        | _ -> ()) cs.multi;
    (match !setup_err with
     | Some e -> Printf.printf "%d setup err %s\n" k (err_name e)
     | None ->
       let use_soils = tb "soils" 0 and use_weather = tb "weather" 0 in
       let gen_st = tb "stoch" 0 and est_st = tb "stoch" 1 in
       let hcfg h = { P.h_mt = mt; h_latency = z_of_int (ti "mt" 1); h_disp_stoch = gen_st;
                      h_rr = parse_q (t "rr" 0); h_est_stoch = est_st; h_est_prob = parse_q (t "estprob" 0);
                      h_pht = (if cs.entry = "pools" then Hashtbl.find_opt phts h
                               else None) } in
       let g = { P.g_rows = z_of_int rows; g_cols = z_of_int cols;
                 g_hosts = List.init nhosts hcfg; g_arrival_land = (t "arrival" 0 = "land");
                 g_est_stoch = est_st; g_est_prob = parse_q (t "estprob" 0);
                 g_competency = (if !comp = [] || cs.entry <> "pools" then None else Some !comp);
                 g_weather = use_weather; g_soil_pct = parse_q (t "soils" 1);
                 g_soil_gen_stoch = gen_st; g_soil_est_stoch = est_st; g_soil_est_prob = parse_q "0";
                 g_overpop_pct = parse_q (t "overpop" 1); g_leaving_pct = parse_q (t "overpop" 2);
                 g_lethal_temp = parse_q (t "lethal" 2) } in
       let rate_cap = if tb "spreadrates" 0 then P.get_number_of_scheduled_actions sch.P.sch_spread_rate else z_of_int 0 in
       let m = { P.m_g = g; m_use_lethal = tb "lethal" 0; m_lethal_schedule = sch.P.sch_lethal;
                 m_use_survival = tb "survival" 0; m_survival_schedule = sch.P.sch_survival;
                 m_spread_schedule = sch.P.sch_spread; m_use_overpop = tb "overpop" 0;
                 m_use_movements = tb "movements" 0; m_use_treatments = tb "treatments" 0;
                 m_use_mortality = tb "mortality" 0; m_mortality_schedule = sch.P.sch_mortality;
                 m_use_spreadrates = tb "spreadrates" 0; m_spread_rate_schedule = sch.P.sch_spread_rate;
                 m_use_quarantine = tb "quarantine" 0; m_quarantine_schedule = sch.P.sch_quarantine;
                 m_rate_capacity = rate_cap } in
       let zeros = List.init ncell (fun _ -> z_of_int 0) in
       let nsoil = ti "soils" 2 in
       let w0 = { P.w_hosts = List.init nhosts (fun h -> { P.hp_cells = Hashtbl.find cells h;
                                                           hp_suitable = (try Hashtbl.find suit h with Not_found -> []) });
                  w_disp = zeros; w_estab = zeros; w_outside = [];
                  w_soil = (if use_soils then Some (List.init ncell (fun _ -> List.init nsoil (fun _ -> z_of_int 0))) else None);
                  w_weather = None; w_totpop = None; w_other = None; w_temp = None; w_last_index = z_of_int 0 } in
       Printf.printf "%d sched spread=%s\n" k (bits sch.P.sch_spread);
       let w = ref w0 in
       let nsteps = ti "steps" 0 in
       (try
          for s = 0 to nsteps - 1 do
            (match Hashtbl.find_opt tapes (k, s) with
             | None -> raise Exit   (* the implementation did not reach this step *)
             | Some evs ->
               let tape = List.map parse_event evs in
               let wcur = if use_weather && !weathers <> [] then
                   { !w with P.w_weather = Some (List.nth !weathers (s mod List.length !weathers)) } else !w in
               (match List.assoc_opt "clearafter" cs.kv with
                | Some [ka; sa] when cs.entry = "pools" && int_of_string ka = s ->
                  treats := P.clear_after_step !treats (z_of_int (int_of_string sa))
                | _ -> ());
               let inp = { P.in_temperatures = !temps; in_survival = !survs; in_totpop = !totpop;
                           in_movements = !moves; in_treatments = !treats } in
               let (res, trace) =
                 if cs.entry = "pools" then P.run_step m inp (z_of_int s) wcur tape
                 else P.run_step_rasters m inp (z_of_int s) wcur tape in
               let print_trace tr =
                 List.iter (fun ((tag, idx), wd) ->
                     let shown = match tag with
                       | P.AGenerate -> -1
                       | P.AMovement -> zi wd.P.w_last_index
                       | _ -> zi idx in
                     Printf.printf "%d s%d %s %d%s\n" k s (tag_name tag) shown (world_text wd use_soils)) tr in
               (match res with
                | P.Ok ((tr, wend), rest) ->
                  print_trace tr;
                  if rest <> [] then begin
                    Printf.printf "%d s%d err tape_leftover(%d)\n" k s (List.length rest); raise Exit end;
                  Printf.printf "%d s%d end %d%s\n" k s s (world_text wend use_soils);
                  w := wend
                | P.Err e ->
                  print_trace trace;
                  Printf.printf "%d s%d err %s\n" k s (err_name e); raise Exit))
          done
        with Exit -> ()))

let () =
  let cases = read_cases Sys.argv.(1) in
  let tapes = read_tapes Sys.argv.(2) in
  List.iteri (fun k c ->
      (try run_case k c tapes with
       | Failure msg -> Printf.printf "%d driver_failure %s\n" k msg
       | Not_found -> Printf.printf "%d driver_failure not_found\n" k)) cases
