(* Model side of the calendar engine (C07, C08): same line protocol as
   harness/calendar.cpp. *)
open Conv
module P = Popsmodel

let date y m d = { P.yr = z_of_int y; P.mo = z_of_int m; P.dy = z_of_int d }
let sdate (d : P.date) =
  Printf.sprintf "%d-%d-%d" (int_of_z d.P.yr) (int_of_z d.P.mo) (int_of_z d.P.dy)
let unit_of = function
  | "day" -> P.Day | "week" -> P.Week | "month" -> P.Month | _ -> failwith "unit"
let freq_of s = if s = "-" then "" else s
let res_bits = function P.Ok l -> bits l | P.Err e -> "err:" ^ err_name e

let freq_names =
  [ "-"; "final_step"; "year"; "yearly"; "month"; "monthly"; "week"; "weekly";
    "day"; "daily"; "every_n_steps"; "every_step"; "time_step"; "bogus"; "Year" ]

let aidx tag k sched =
  let n = List.length sched in
  let idx = List.init n (fun i ->
      match P.simulation_step_to_action_step sched (z_of_int i) with
      | P.Ok v -> string_of_int (int_of_z v) | P.Err e -> "err:" ^ err_name e) in
  let beyond = match P.simulation_step_to_action_step sched (z_of_int n) with
    | P.Ok v -> string_of_int (int_of_z v) | P.Err e -> "err:" ^ err_name e in
  Printf.printf "%d aidx_%s %s ; count %d ; beyond %s\n" k tag (String.concat "," idx)
    (int_of_z (P.get_number_of_scheduled_actions sched)) beyond

let run_case k line =
  let t = Array.of_list (split_ws line) in
  let i j = int_of_string t.(j) in
  match t.(0) with
  | "S" ->
    let d = date (i 2) (i 3) (i 4) in
    let r = match t.(1) with
      | "add" -> P.add_day d | "sub" -> P.subtract_day d
      | "days" -> P.inc_days (z_of_int (i 5)) d
      | "week" -> P.inc_week d | "month" -> P.inc_month d
      | _ -> failwith "op" in
    Printf.printf "%d succ %s\n" k (sdate r)
  | "C" ->
    let a = date (i 1) (i 2) (i 3) and b = date (i 4) (i 5) (i 6) in
    Printf.printf "%d cmp %s\n" k
      (bits [P.dgt a b; P.dlt a b; P.dge a b; P.dle a b; P.deq a b])
  | "K" ->
    (* K sy sm sd ey em ed unit n am ad ss se fn ws nl (ly lm ld)* *)
    let s = date (i 1) (i 2) (i 3) and e = date (i 4) (i 5) (i 6) in
    (match P.mk_scheduler s e (unit_of t.(7)) (z_of_int (i 8)) with
     | P.Err er -> Printf.printf "%d err %s\n" k (err_name er)
     | P.Ok sc ->
       let steps = sc.P.sc_steps in
       Printf.printf "%d steps %s\n" k
         (String.concat " " (List.map (fun st ->
              sdate st.P.s_start ^ ":" ^ sdate st.P.s_end) steps));
       Printf.printf "%d num_steps %d\n" k (int_of_z (P.num_steps sc));
       let n = List.length steps in
       List.iter (fun j ->
           Printf.printf "%d get_step %d %s\n" k j
             (match P.get_step sc (z_of_int j) with
              | P.Ok st -> sdate st.P.s_start ^ ":" ^ sdate st.P.s_end
              | P.Err er -> "err:" ^ err_name er)) [0; n - 1; n];
       let yearly = P.schedule_action_yearly sc (z_of_int (i 9)) (z_of_int (i 10)) in
       Printf.printf "%d yearly %s\n" k (bits yearly);
       Printf.printf "%d eoy %s\n" k (bits (P.schedule_action_end_of_year sc));
       Printf.printf "%d final %s\n" k (bits (P.schedule_action_end_of_simulation sc));
       Printf.printf "%d monthly %s\n" k (bits (P.schedule_action_monthly sc));
       let spread = P.schedule_spread sc (z_of_int (i 11)) (z_of_int (i 12)) in
       Printf.printf "%d spread %s\n" k (bits spread);
       let fn = i 13 in
       if fn >= 1 then
         Printf.printf "%d nsteps %s\n" k (bits (P.schedule_action_nsteps sc (z_of_int fn)));
       List.iter (fun f ->
           Printf.printf "%d fs %s %s\n" k f
             (res_bits (P.schedule_from_string sc (coq_string_of (freq_of f)) (z_of_int fn))))
         freq_names;
       Printf.printf "%d weather %s\n" k
         (match P.schedule_weather sc (z_of_int (i 14)) with
          | P.Ok l -> ints l | P.Err er -> "err:" ^ err_name er);
       aidx "yearly" k yearly; aidx "spread" k spread;
       let nl = i 15 in
       for j = 0 to nl - 1 do
         let d = date (i (16 + 3 * j)) (i (17 + 3 * j)) (i (18 + 3 * j)) in
         Printf.printf "%d lookup %s %s\n" k (sdate d)
           (match P.schedule_action_date sc d with
            | P.Ok v -> string_of_int (int_of_z v) | P.Err er -> "err:" ^ err_name er)
       done)
  | "G" ->
    (* G sy sm sd ey em ed unit n ss se outf outn um mf mn ul lm us sm sd usr srf srn uq qf qn ws *)
    let b j = t.(j) = "1" in
    let f j = coq_string_of (freq_of t.(j)) in
    let c = { P.c_start = date (i 1) (i 2) (i 3); c_end = date (i 4) (i 5) (i 6);
              c_unit = unit_of t.(7); c_num_units = z_of_int (i 8);
              c_season_start = z_of_int (i 9); c_season_end = z_of_int (i 10);
              c_output_freq = f 11; c_output_n = z_of_int (i 12);
              c_use_mortality = b 13; c_mortality_freq = f 14; c_mortality_n = z_of_int (i 15);
              c_use_lethal = b 16; c_lethal_month = z_of_int (i 17);
              c_use_survival = b 18; c_survival_month = z_of_int (i 19);
              c_survival_day = z_of_int (i 20);
              c_use_spreadrates = b 21; c_spreadrate_freq = f 22; c_spreadrate_n = z_of_int (i 23);
              c_use_quarantine = b 24; c_quarantine_freq = f 25; c_quarantine_n = z_of_int (i 26);
              c_weather_size = z_of_int (i 27) } in
    (match P.create_schedules c with
     | P.Err er -> Printf.printf "%d cfg err %s\n" k (err_name er)
     | P.Ok s ->
       Printf.printf "%d cfg spread=%s output=%s mortality=%s lethal=%s survival=%s spread_rate=%s quarantine=%s weather=%s\n"
         k (bits s.P.sch_spread) (bits s.P.sch_output) (bits s.P.sch_mortality)
         (bits s.P.sch_lethal) (bits s.P.sch_survival) (bits s.P.sch_spread_rate)
         (bits s.P.sch_quarantine) (ints s.P.sch_weather))
  | _ -> failwith ("unknown case kind " ^ t.(0))

let main file =
  let ic = open_in file in
  iter_lines ic run_case;
  close_in ic

let () = main Sys.argv.(1)
