(* Model side of the weather part of C12. usage: popsdriver <cases> <impl output>
   (the draws lines of the implementation output are the tape). *)
open Conv
module P = Popsmodel

let z_mul_pow2 z b =
  let rec go z b = if b <= 0 then z else go (P.Z.mul z (P.Zpos (P.XO P.XH))) (b - 1) in go z b
let parse_q (s : string) : P.q =
  let num_s, den_s = match String.index_opt s '/' with
    | Some i -> String.sub s 0 i, String.sub s (i + 1) (String.length s - i - 1)
    | None -> s, "1" in
  let parse_pow t =
    match String.index_opt t '^' with
    | None -> (int_of_string t, 0)
    | Some i ->
      let b = int_of_string (String.sub t (i + 1) (String.length t - i - 1)) in
      let left = String.sub t 0 (i - 1) in
      let a = if left = "" then 1 else int_of_string (String.sub left 0 (String.length left - 1)) in
      (a, b) in
  let (na, nb) = parse_pow num_s and (da, db) = parse_pow den_s in
  let num = z_mul_pow2 (z_of_int na) nb in
  let den = match z_mul_pow2 (z_of_int da) db with P.Zpos p -> p | _ -> P.XH in
  { P.qnum = num; P.qden = den }

(* canonical text of a Q: reduce to num/2^k as the harness prints doubles *)
let rec pos_to_int = function P.XH -> 1 | P.XO p -> 2 * pos_to_int p | P.XI p -> 2 * pos_to_int p + 1
(* structural on the binary positives: the denominator may be 2^63 and more (a
   uniform variate below 2^-10), which does not fit an OCaml int *)
let q_text (q : P.q) =
  let strip_z = function
    | P.Zpos (P.XO p) -> Some (P.Zpos p) | P.Zneg (P.XO p) -> Some (P.Zneg p) | _ -> None in
  let rec reduce n d = match d, strip_z n with
    | P.XO d', Some n' -> reduce n' d'
    | _ -> (n, d) in
  let rec log2 = function P.XH -> Some 0 | P.XO p -> (match log2 p with Some k -> Some (k + 1) | None -> None) | P.XI _ -> None in
  if q.P.qnum = P.Z0 then "0/1" else begin
    let (n, d) = reduce q.P.qnum q.P.qden in
    match log2 d with
    | None -> Printf.sprintf "%d/%d" (int_of_z n) (pos_to_int d)
    | Some 0 ->
      let e = ref 0 and m = ref n in
      let continue = ref true in
      while !continue do (match strip_z !m with Some m' -> m := m'; incr e | None -> continue := false) done;
      Printf.sprintf "%d*2^%d/1" (int_of_z !m) !e
    | Some k -> Printf.sprintf "%d/2^%d" (int_of_z n) k end

let () =
  let draws = Hashtbl.create 100 in
  let ic = open_in Sys.argv.(2) in
  (try while true do
       let l = input_line ic in
       match split_ws l with
       | k :: "draws" :: rest -> Hashtbl.replace draws (int_of_string k) rest
       | _ -> ()
     done with End_of_file -> ());
  close_in ic;
  let ic = open_in Sys.argv.(1) in
  iter_lines ic (fun k line ->
      let t = Array.of_list (split_ws line) in
      let i j = int_of_string t.(j) in
      let mr = i 2 and mc = i 3 and sr = i 4 and sc = i 5 in
      let means = List.init (mr * mc) (fun j -> parse_q t.(6 + j)) in
      let ds = List.map (fun s -> match String.split_on_char ':' s with
          | [n; "-"] -> let q = parse_q n in (q, q)
          | [n; u] -> (parse_q n, parse_q u)
          | _ -> failwith "draw") (try Hashtbl.find draws k with Not_found -> []) in
      Printf.printf "%d draws%s\n" k
        (String.concat "" (List.map (fun s -> " " ^ s) (try Hashtbl.find draws k with Not_found -> [])));
      match P.update_weather_from_distribution (z_of_int mr) (z_of_int mc) (z_of_int sr) (z_of_int sc) means ds with
      | P.Ok vals ->
        Printf.printf "%d values%s\n" k (String.concat "" (List.map (fun q -> " " ^ q_text q) vals));
        (* Environment::influence_*_at multiply by the coefficient of the cell *)
        let four = P.Zpos (P.XO (P.XO P.XH)) in
        let times4 q = { q with P.qnum = P.Z.mul q.P.qnum four } in
        let quarter q = { q with P.qden = (match P.Z.mul (P.Zpos q.P.qden) four with P.Zpos p -> p | _ -> P.XH) } in
        Printf.printf "%d applied%s\n" k
          (String.concat "" (List.map (fun q -> " " ^ q_text (times4 q) ^ "," ^ q_text (quarter q)) vals))
      | P.Err e -> Printf.printf "%d err:%s\n" k (err_name e));
  close_in ic
