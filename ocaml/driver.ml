(* popsdriver <engine> <case file>: runs the extracted Coq model on a case
   file and prints canonical results, one or more lines per case. *)
let () =
  match Array.to_list Sys.argv with
  | [_; "calendar"; f] -> Drv_calendar.main f
  | _ -> prerr_endline "usage: popsdriver <engine> <cases>"; exit 2
